use crate::absgame::*;
use crate::absgame::board::Board;
use crate::moves::Move;
use crate::search::vh::{CM, INF, NEG_INF};
use crate::search::Searcher;

pub fn stub_order_moves(_s: &Searcher, _b: &Board, moves: &mut [Move], _tt: Option<Move>, _ply: u8) { if moves.len() == 2 && kani::any() { moves.swap(0, 1); } }
pub fn stub_order_captures(_s: &Searcher, moves: &mut [Move], _b: &Board) { if moves.len() == 2 && kani::any() { moves.swap(0, 1); } }
pub fn stub_age(_h: &mut crate::history::HistoryTable) {}
pub fn stub_record(_h: &mut crate::history::HistoryTable, _m: &Move, _d: u8) {}
pub fn stub_get_score(_h: &crate::history::HistoryTable, _m: &Move) -> i32 { let x: i32 = kani::any(); kani::assume(x >= 0); x }

fn qvalue(n: usize) -> i64 {
    let gm = g(); let inchk = gm.in_check[n];
    let mut best: i64 = gm.eval[n] as i64; let mut any = false;
    if level(n) < LEVELS { let mut j = 0; while j < BR {
        if (j as u8) < gm.nmoves[n] && (inchk || (gm.qmask[n] >> j) & 1 == 1) { any = true; let v = -qvalue(n * BR + 1 + j); if v > best { best = v; } }
        j += 1; } }
    if !any && inchk { return -(CM as i64); }
    best
}
fn has_moves(n: usize) -> bool { level(n) < LEVELS && g().nmoves[n] > 0 }
fn value(n: usize, d: u8) -> i64 {
    let gm = g();
    if d == 0 { return qvalue(n); }
    if !has_moves(n) { return if gm.in_check[n] { -(CM as i64) + d as i64 } else { 0 }; }
    let mut best = i64::MIN; let mut j = 0;
    while j < BR { if (j as u8) < gm.nmoves[n] { let v = -value(n * BR + 1 + j, d - 1); if v > best { best = v; } } j += 1; }
    best
}
fn norm(x: i64) -> i64 { if x > INF as i64 { INF as i64 } else if x < NEG_INF as i64 { NEG_INF as i64 } else { x } }

fn setup_node(n: usize) { unsafe {
    let gm = &mut *core::ptr::addr_of_mut!(G);
    gm.nmoves[n] = kani::any(); kani::assume(gm.nmoves[n] as usize <= BR);
    gm.in_check[n] = kani::any(); gm.qmask[n] = kani::any();
    gm.eval[n] = kani::any(); kani::assume(gm.eval[n] > -20000 && gm.eval[n] < 20000);
    gm.hash[n] = kani::any();
    gm.mt[n][0] = kani::any(); kani::assume(gm.mt[n][0] == 0 || gm.mt[n][0] == 1 || gm.mt[n][0] == 4);
    gm.mt[n][1] = kani::any(); kani::assume(gm.mt[n][1] == 0 || gm.mt[n][1] == 1 || gm.mt[n][1] == 4);
    gm.from[n][0] = kani::any(); kani::assume(gm.from[n][0] < 64);
    gm.from[n][1] = kani::any(); kani::assume(gm.from[n][1] < 64);
} }
fn setup_game() {
    setup_node(0); setup_node(1); setup_node(2); setup_node(3); setup_node(4); setup_node(5); setup_node(6);
    let h = g().hash;
    kani::assume(h[0]!=h[1]&&h[0]!=h[2]&&h[0]!=h[3]&&h[0]!=h[4]&&h[0]!=h[5]&&h[0]!=h[6]&&h[1]!=h[2]&&h[1]!=h[3]&&h[1]!=h[4]&&h[1]!=h[5]&&h[1]!=h[6]
        &&h[2]!=h[3]&&h[2]!=h[4]&&h[2]!=h[5]&&h[2]!=h[6]&&h[3]!=h[4]&&h[3]!=h[5]&&h[3]!=h[6]&&h[4]!=h[5]&&h[4]!=h[6]&&h[5]!=h[6]);
}

macro_rules! search_harness { ($name:ident, $body:block) => {
    #[kani::proof]
    #[kani::unwind(4)]
    #[kani::stub(crate::history::HistoryTable::age, stub_age)]
    #[kani::stub(crate::history::HistoryTable::get_score, stub_get_score)]
    #[kani::stub(crate::history::HistoryTable::record_cutoff, stub_record)]
    #[kani::stub(crate::search::Searcher::order_moves, stub_order_moves)]
    #[kani::stub(crate::search::Searcher::order_captures, stub_order_captures)]
    fn $name() $body
} }

fn check_result(score: i32, mv: Option<Move>, depth: u8) {
    let want = value(0, depth);
    if has_moves(0) {
        assert!(norm(score as i64) == norm(want));
        let m = mv.unwrap();
        assert!(m.to < g().nmoves[0]);
        let cv = -value(1 + m.to as usize, depth - 1);
        assert!(norm(cv) == norm(want));
    } else { assert!(mv.is_none()); }
}

search_harness!(c05_d1, {
    setup_game();
    let mut s = Searcher::new();
    let (score, mv) = s.find_best_move(&Board::root(), 1, None);
    check_result(score, mv, 1);
    kani::cover!(has_moves(0) && value(0, 1) > 50 && value(0, 1) < 100);
    kani::cover!(has_moves(0) && value(0, 1) > 40000);
    core::mem::forget(s);
});

search_harness!(c06_d1, {
    setup_game();
    let mut s = Searcher::new();
    unsafe { STOP_AT = kani::any(); }
    let before = crate::search::vh::rep_len(&s);
    let _ = s.find_best_move(&Board::root(), 1, Some(std::time::Duration::from_millis(1)));
    assert!(unsafe { NODES_AFTER_STOP } == 0);
    assert!(crate::search::vh::rep_len(&s) == before);
    let (score, mv) = s.find_best_move(&Board::root(), 1, None);
    check_result(score, mv, 1);
    core::mem::forget(s);
});

search_harness!(c06_d1_stop2, {
    setup_game();
    let mut s = Searcher::new();
    unsafe { STOP_AT = 2; }
    let before = crate::search::vh::rep_len(&s);
    let _ = s.find_best_move(&Board::root(), 1, Some(std::time::Duration::from_millis(1)));
    assert!(unsafe { NODES_AFTER_STOP } == 0);
    assert!(crate::search::vh::rep_len(&s) == before);
    let (score, mv) = s.find_best_move(&Board::root(), 1, None);
    check_result(score, mv, 1);
    core::mem::forget(s);
});
