//! Abstract game: replaces board/move_gen/eval/zobrist/timer for the real search.rs.
use crate::moves::{Move, MoveType};
use crate::pieces::Piece;
pub const BR: usize = 2;
pub const LEVELS: usize = 2;
pub const NN: usize = 7;
pub struct Game { pub nmoves: [u8; NN], pub in_check: [bool; NN], pub qmask: [u8; NN], pub eval: [i32; NN], pub hash: [u64; NN], pub mt: [[u8; BR]; NN], pub from: [[u8; BR]; NN] }
pub static mut G: Game = Game { nmoves: [0; NN], in_check: [false; NN], qmask: [0; NN], eval: [0; NN], hash: [0; NN], mt: [[0; BR]; NN], from: [[0; BR]; NN] };
pub static mut POLLS: u32 = 0;
pub static mut STOP_AT: u32 = u32::MAX;
pub static mut NODES_AFTER_STOP: u32 = 0;
pub static mut STOPPED: bool = false;
pub fn g() -> &'static Game { unsafe { &*core::ptr::addr_of!(G) } }
pub fn level(n: usize) -> usize { if n == 0 { 0 } else if n < 3 { 1 } else { 2 } }
fn mk_move(n: usize, j: usize) -> Move {
    let mt = match g().mt[n][j] { 0 => MoveType::Quiet, 1 => MoveType::Capture, _ => MoveType::Promotion };
    Move::new(g().from[n][j], j as u8, if g().mt[n][j] == 4 { Piece::Queen } else { Piece::Knight }, mt)
}
pub mod board {
    use crate::moves::Move; use crate::pieces::Piece;
    #[derive(Copy, Clone)]
    pub struct Board { pub halfmove_clock: u8, pub fullmove_counter: u8 }
    impl Board {
        pub fn root() -> Self { Board { halfmove_clock: 0, fullmove_counter: 0 } }
        pub fn lvl(&self) -> usize { self.fullmove_counter as usize }
        pub fn node(&self) -> usize { self.halfmove_clock as usize }
        pub fn clone_with_move(&self, mv: &Move) -> Board {
            let c = self.node() * super::BR + 1 + mv.to as usize;
            Board { halfmove_clock: if c < super::NN { c as u8 } else { 0 }, fullmove_counter: self.fullmove_counter + 1 }
        }
        pub fn get_piece_at(&self, _sq: u8) -> Option<Piece> { None }
    }
}
pub mod move_gen {
    use super::*; use super::board::Board; use crate::shimvec::Vec;
    pub struct MoveGenerator;
    impl MoveGenerator {
        pub fn new() -> Self { MoveGenerator }
        pub fn generate_moves(&self, b: &Board) -> Vec<Move> {
            let n = b.node(); let mut v = Vec::new(); if b.lvl() >= LEVELS { return v; } let mut j = 0;
            while j < BR { if (j as u8) < g().nmoves[n] { v.push(mk_move(n, j)); } j += 1; }
            v
        }
        pub fn generate_quiescence_moves(&self, b: &Board) -> Vec<Move> {
            let n = b.node(); let mut v = Vec::new(); if b.lvl() >= LEVELS { return v; } let mut j = 0;
            while j < BR { if (j as u8) < g().nmoves[n] && (g().qmask[n] >> j) & 1 == 1 { v.push(mk_move(n, j)); } j += 1; }
            v
        }
        pub fn is_in_check(&self, b: &Board) -> bool { g().in_check[b.node()] }
    }
}
pub mod eval {
    use super::*; use super::board::Board;
    pub struct Evaluator;
    impl Evaluator { pub fn new() -> Self { Evaluator } pub fn evaluate(&mut self, b: &Board) -> i32 { g().eval[b.node()] } }
}
pub mod zobrist {
    use super::*; use super::board::Board;
    pub struct ZobristTable;
    impl ZobristTable { pub fn new() -> Self { ZobristTable } pub fn hash(&self, b: &Board) -> u64 { g().hash[b.node()] } }
}
pub mod timer {
    use super::*; use std::time::Duration;
    pub struct SearchTimer { pub limited: bool, pub nodes_searched: u64 }
    impl SearchTimer {
        pub fn new() -> Self { Self { limited: false, nodes_searched: 0 } }
        pub fn start(&mut self, l: Option<Duration>) { self.limited = l.is_some(); self.nodes_searched = 0; unsafe { POLLS = 0; STOPPED = false; NODES_AFTER_STOP = 0; } }
        pub fn increment_nodes(&mut self) { self.nodes_searched += 1; unsafe { if STOPPED { NODES_AFTER_STOP += 1; } } }
        pub fn should_stop(&self) -> bool { if !self.limited { return false; } unsafe { POLLS += 1; let s = POLLS > STOP_AT; if s { STOPPED = true; } s } }
        pub fn print_info(&self, _d: u8, _s: i32, _m: Option<Move>) {}
    }
}
