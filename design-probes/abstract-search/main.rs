#![recursion_limit = "1024"]
#![allow(dead_code, unused_imports, unused_variables, static_mut_refs)]
macro_rules! real_mod { ($name:ident, $file:literal) => { pub mod $name { include!(concat!("/repo/src/", $file)); } }; }
real_mod!(pieces, "pieces.rs");
real_mod!(moves, "moves.rs");
real_mod!(square, "square.rs");
real_mod!(bitboard, "bitboard.rs");
real_mod!(history, "history.rs");
real_mod!(killer_moves, "killer_moves.rs");
real_mod!(repetition, "repetition.rs");
pub mod shim;
pub mod transposition {
    mod std { pub use ::std::*; pub mod collections { pub use crate::shim::HashMap; } }
    include!("/repo/src/transposition.rs");
}
pub mod shimvec;
pub mod absgame;
pub use absgame::{board, eval, move_gen, zobrist, timer};
pub mod search { include!("/repo/src/search.rs");
    pub mod vh { use super::*;
        pub const NEG_INF: i32 = NEGATIVE_INFINITY; pub const INF: i32 = INFINITY; pub const CM: i32 = CHECKMATE_SCORE;
        pub fn rep_len(s: &Searcher) -> usize { s.repetition.len() }
        pub fn nodes(s: &Searcher) -> u64 { s.timer.nodes_searched }
    }
}
#[cfg(kani)] mod h;
fn main() {}
