use crate::lookup::LookupTable;
use std::fmt::Write;
pub fn dump() -> String {
    let l = LookupTable::init();
    let mut s = String::new();
    let m = &l.magic_table;
    writeln!(s, "pub const ROOK_MASKS: [u64;64] = {:?};", m.rook_attack_masks).unwrap();
    writeln!(s, "pub const BISHOP_MASKS: [u64;64] = {:?};", m.bishop_attack_masks).unwrap();
    writeln!(s, "pub const ROOK_MAGICS: [u64;64] = {:?};", m.rook_magics).unwrap();
    writeln!(s, "pub const BISHOP_MAGICS: [u64;64] = {:?};", m.bishop_magics).unwrap();
    for sq in 0..64 {
        writeln!(s, "pub const ROOK_T{}: [u64;{}] = {:?};", sq, m.rook_attacks[sq].len(), m.rook_attacks[sq]).unwrap();
        writeln!(s, "pub const BISHOP_T{}: [u64;{}] = {:?};", sq, m.bishop_attacks[sq].len(), m.bishop_attacks[sq]).unwrap();
    }
    writeln!(s, "pub const KNIGHT: [u64;64] = {:?};", l.knight_lookup).unwrap();
    writeln!(s, "pub const KING: [u64;64] = {:?};", l.king_lookup).unwrap();
    writeln!(s, "pub const BETWEEN_INC: [[u64;64];64] = {:?};", l.inclusive_between_lookup).unwrap();
    writeln!(s, "pub const BETWEEN_EXC: [[u64;64];64] = {:?};", l.exclusive_between_lookup).unwrap();
    s
}
