//! Abstract game tree harness: real search code, stubbed move generation / eval / hashing / clock.
use crate::board::Board;
use crate::eval::Evaluator;
use crate::move_gen::MoveGenerator;
use crate::moves::{Move, MoveType};
use crate::pieces::Piece;
use crate::search::vh::{CM, INF, NEG_INF};
use crate::search::Searcher;
use crate::timer::SearchTimer;
use crate::transposition::{Bounds, Entry, TranspositionTable};
use crate::zobrist::ZobristTable;
use std::time::Duration;

pub const BR: usize = 2;        // branching bound
pub const LEVELS: usize = 2;    // tree levels below root (negamax depth + quiescence depth)
pub const NN: usize = 7;       // nodes = 2^(LEVELS+1)-1

pub struct Game {
    pub nmoves: [u8; NN],
    pub in_check: [bool; NN],
    pub qmask: [u8; NN],      // bit j: move j is tactical
    pub eval: [i32; NN],
    pub hash: [u64; NN],
    pub mt: [[u8; BR]; NN],   // move type per move: 0 quiet 1 capture 4 promotion
    pub from: [[u8; BR]; NN],
}
static mut G: Game = Game { nmoves: [0; NN], in_check: [false; NN], qmask: [0; NN], eval: [0; NN], hash: [0; NN], mt: [[0; BR]; NN], from: [[0; BR]; NN] };
static mut POLLS: u32 = 0;
static mut STOP_AT: u32 = u32::MAX;
static mut NODES_AFTER_STOP: u32 = 0;

fn g() -> &'static Game { unsafe { &*core::ptr::addr_of!(G) } }
fn node(b: &Board) -> usize { b.halfmove_clock as usize }
fn level(n: usize) -> usize { if n == 0 { 0 } else if n < 3 { 1 } else if n < 7 { 2 } else { 3 } }
pub fn stub_order_moves(_s: &Searcher, _b: &Board, moves: &mut [Move], _tt: Option<Move>, _ply: u8) {
    if moves.len() == 2 && kani::any() { moves.swap(0, 1); }
}
pub fn stub_order_captures(_s: &Searcher, moves: &mut [Move], _b: &Board) {
    if moves.len() == 2 && kani::any() { moves.swap(0, 1); }
}
pub fn stub_age(_h: &mut crate::history::HistoryTable) { }
pub fn stub_get_score(_h: &crate::history::HistoryTable, _m: &Move) -> i32 { let x: i32 = kani::any(); kani::assume(x >= 0); x }

fn mk_move(n: usize, j: usize) -> Move {
    let mt = match g().mt[n][j] { 0 => MoveType::Quiet, 1 => MoveType::Capture, _ => MoveType::Promotion };
    Move::new(g().from[n][j], j as u8, if g().mt[n][j] == 4 { Piece::Queen } else { Piece::Knight }, mt)
}

pub fn stub_generate_moves(_s: &MoveGenerator, b: &Board) -> Vec<Move> {
    let n = node(b);
    let mut v = Vec::with_capacity(BR);
    let mut j = 0;
    while j < BR { if (j as u8) < g().nmoves[n] { v.push(mk_move(n, j)); } j += 1; }
    v
}
pub fn stub_generate_q(_s: &MoveGenerator, b: &Board) -> Vec<Move> {
    let n = node(b);
    let mut v = Vec::with_capacity(BR);
    let mut j = 0;
    while j < BR { if (j as u8) < g().nmoves[n] && (g().qmask[n] >> j) & 1 == 1 { v.push(mk_move(n, j)); } j += 1; }
    v
}
pub fn stub_in_check(_s: &MoveGenerator, b: &Board) -> bool { g().in_check[node(b)] }
pub fn stub_clone_with_move(b: &Board, mv: &Move) -> Board {
    let mut nb = *b;
    let c = node(b) * BR + 1 + mv.to as usize;
    nb.halfmove_clock = c as u8;
    nb
}
pub fn stub_hash(_z: &ZobristTable, b: &Board) -> u64 { g().hash[node(b)] }
pub fn stub_eval(_e: &mut Evaluator, b: &Board) -> i32 { g().eval[node(b)] }
pub fn stub_start(_t: &mut SearchTimer, _l: Option<Duration>) { unsafe { POLLS = 0; } }
pub fn stub_should_stop(_t: &SearchTimer) -> bool { unsafe { POLLS += 1; POLLS > STOP_AT } }
pub fn stub_print_info(_t: &SearchTimer, _d: u8, _s: i32, _m: Option<Move>) {}

// ---- TT model (depth-preferred association list) ----
const TTN: usize = NN;
static mut TT_USED: [bool; TTN] = [false; TTN];
static mut TT_E: [Entry; TTN] = [Entry { hash_key: 0, eval: 0, best_move: None, depth: 0, bounds: Bounds::Exact }; TTN];
pub fn stub_tt_store(_t: &mut TranspositionTable, hash_key: u64, eval: i32, best_move: Option<Move>, depth: u8, bounds: Bounds) {
    unsafe {
        let mut i = 0; let mut slot = TTN; let mut free = TTN;
        while i < TTN { if TT_USED[i] && TT_E[i].hash_key == hash_key { slot = i; } if !TT_USED[i] && free == TTN { free = i; } i += 1; }
        if slot == TTN { assert!(free < TTN); TT_USED[free] = true; TT_E[free] = Entry { hash_key, eval, best_move, depth, bounds }; }
        else if TT_E[slot].depth <= depth { TT_E[slot] = Entry { hash_key, eval, best_move, depth, bounds }; }
    }
}
pub fn stub_tt_retrieve(_t: &TranspositionTable, key: u64) -> Option<&'static Entry> {
    unsafe {
        let mut i = 0; let mut r: Option<&'static Entry> = None;
        while i < TTN { if TT_USED[i] && TT_E[i].hash_key == key { r = Some(&*core::ptr::addr_of!(TT_E[i])); } i += 1; }
        r
    }
}

// ---- reference minimax over the abstract tree ----
fn qvalue(n: usize) -> i64 {
    let gm = g();
    let lvl = level(n);
    let inchk = gm.in_check[n];
    let mut best: i64 = gm.eval[n] as i64;
    let mut any = false;
    if lvl < LEVELS {
        let mut j = 0;
        while j < BR {
            if (j as u8) < gm.nmoves[n] && (inchk || (gm.qmask[n] >> j) & 1 == 1) {
                any = true;
                let v = -qvalue(n * BR + 1 + j);
                if v > best { best = v; }
            }
            j += 1;
        }
    }
    if !any && inchk { return -(CM as i64); }
    best
}
fn value(n: usize, d: u8) -> i64 {
    let gm = g();
    if d == 0 { return qvalue(n); }
    if gm.nmoves[n] == 0 { return if gm.in_check[n] { -(CM as i64) + d as i64 } else { 0 }; }
    let mut best = i64::MIN;
    let mut j = 0;
    while j < BR {
        if (j as u8) < gm.nmoves[n] { let v = -value(n * BR + 1 + j, d - 1); if v > best { best = v; } }
        j += 1;
    }
    best
}
fn norm(x: i64) -> i64 { if x > INF as i64 { INF as i64 } else if x < NEG_INF as i64 { NEG_INF as i64 } else { x } }

fn setup_game() {
    unsafe {
        let gm = &mut *core::ptr::addr_of_mut!(G);
        let mut n = 0;
        while n < NN {
            gm.nmoves[n] = kani::any(); kani::assume(gm.nmoves[n] as usize <= BR);
            gm.in_check[n] = kani::any();
            gm.qmask[n] = kani::any();
            gm.eval[n] = kani::any(); kani::assume(gm.eval[n] > -20000 && gm.eval[n] < 20000);
            gm.hash[n] = kani::any();
            let mut j = 0;
            while j < BR {
                gm.mt[n][j] = kani::any(); kani::assume(gm.mt[n][j] == 0 || gm.mt[n][j] == 1 || gm.mt[n][j] == 4);
                gm.from[n][j] = kani::any(); kani::assume(gm.from[n][j] < 64);
                j += 1;
            }
            // deepest level: quiescence must end (no tactical continuation; in check only if no moves)
            if level(n) == LEVELS { kani::assume(gm.nmoves[n] == 0 || !gm.in_check[n]); }
            n += 1;
        }
        // distinct positions have distinct hashes
        let mut a = 0;
        while a < NN { let mut b = a + 1; while b < NN { kani::assume(gm.hash[a] != gm.hash[b]); b += 1; } a += 1; }
    }
}

macro_rules! search_stubs { ($($item:tt)*) => {
    #[kani::proof]
    #[kani::unwind(9)]
    #[kani::stub(crate::history::HistoryTable::age, stub_age)]
    #[kani::stub(crate::search::Searcher::order_moves, stub_order_moves)]
    #[kani::stub(crate::search::Searcher::order_captures, stub_order_captures)]
    #[kani::stub(crate::history::HistoryTable::get_score, stub_get_score)]
    #[kani::stub(crate::move_gen::MoveGenerator::generate_moves, stub_generate_moves)]
    #[kani::stub(crate::move_gen::MoveGenerator::generate_quiescence_moves, stub_generate_q)]
    #[kani::stub(crate::move_gen::MoveGenerator::is_in_check, stub_in_check)]
    #[kani::stub(crate::board::Board::clone_with_move, stub_clone_with_move)]
    #[kani::stub(crate::zobrist::ZobristTable::hash, stub_hash)]
    #[kani::stub(crate::eval::Evaluator::evaluate, stub_eval)]
    #[kani::stub(crate::timer::SearchTimer::start, stub_start)]
    #[kani::stub(crate::timer::SearchTimer::should_stop, stub_should_stop)]
    #[kani::stub(crate::timer::SearchTimer::print_info, stub_print_info)]
    $($item)*
}}

fn fresh_searcher() -> Searcher {
    crate::search::vh::mk_searcher(crate::h_mg::mk_movegen(), crate::zobrist::vh::zero(), TranspositionTable::new())
}

fn run_depth(depth: u8) {
    setup_game();
    let mut s = fresh_searcher();
    let mut root = Board::default();
    root.halfmove_clock = 0;
    let (score, mv) = s.find_best_move(&root, depth, None);
    let want = value(0, depth);
    if g().nmoves[0] > 0 {
        assert!(norm(score as i64) == norm(want));
        let m = mv.unwrap();
        assert!((m.to as u8) < g().nmoves[0]);
        let cv = -value(0 * BR + 1 + m.to as usize, depth - 1);
        assert!(norm(cv) == norm(want));
    } else {
        assert!(mv.is_none());
    }
    kani::cover!(g().nmoves[0] == 2 && want > 50 && want < 100);
    core::mem::forget(s);
}

search_stubs! { fn search_d1() { run_depth(1); } }
search_stubs! { fn search_d2() { run_depth(2); } }
