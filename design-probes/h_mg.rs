use crate::board::{Board, Castle};
use crate::board::vh::position_from_raw;
use crate::lookup::LookupTable;
use crate::magic::Magic;
use crate::move_gen::MoveGenerator;
use crate::moves::{Move, MoveType};
use crate::pieces::{Color, Piece};
use crate::spec::*;
use crate::tables_small as t;

pub fn stub_rook(_m: &Magic, sq: u8, occ: u64) -> u64 { ray_attacks(sq, occ, false) }
pub fn stub_bishop(_m: &Magic, sq: u8, occ: u64) -> u64 { ray_attacks(sq, occ, true) }

pub fn mk_movegen() -> MoveGenerator {
    MoveGenerator { lookup: LookupTable {
        knight_lookup: t::KNIGHT, king_lookup: t::KING,
        magic_table: Magic { rook_attack_masks: [0;64], bishop_attack_masks: [0;64], rook_attacks: Vec::new(), bishop_attacks: Vec::new(), rook_magics: [0;64], bishop_magics: [0;64] },
        inclusive_between_lookup: t::BETWEEN_INC, exclusive_between_lookup: t::BETWEEN_EXC,
    } }
}

pub fn any_piece() -> Piece {
    let x: u8 = kani::any(); kani::assume(x < 6);
    match x { 0 => Piece::Pawn, 1 => Piece::Knight, 2 => Piece::Bishop, 3 => Piece::Rook, 4 => Piece::Queen, _ => Piece::King }
}
pub fn any_mt() -> MoveType {
    let x: u8 = kani::any(); kani::assume(x < 5);
    match x { 0 => MoveType::Quiet, 1 => MoveType::Capture, 2 => MoveType::EnPassant, 3 => MoveType::Castle, _ => MoveType::Promotion }
}
pub fn any_move() -> Move {
    let from: u8 = kani::any(); let to: u8 = kani::any();
    kani::assume(from < 64 && to < 64);
    Move::new(from, to, any_piece(), any_mt())
}
pub fn any_board() -> Board {
    let pieces: [u64; 6] = kani::any();
    let colors: [u64; 2] = kani::any();
    let ep: u8 = kani::any();
    kani::assume(ep <= 64);
    Board {
        position: position_from_raw(pieces, colors),
        active_color: if kani::any() { Color::White } else { Color::Black },
        castling_ability: Castle::new(kani::any(), kani::any(), kani::any(), kani::any()),
        en_passant_target: if ep == 64 { None } else { Some(ep) },
        halfmove_clock: kani::any(),
        fullmove_counter: kani::any(),
    }
}

#[kani::proof]
#[kani::unwind(9)]
fn make_move_matches_spec() {
    let b = any_board();
    let p = from_board(&b);
    kani::assume(valid(&p));
    let m = any_move();
    kani::assume(pseudo_legal(&p, &m));
    let nb = b.clone_with_move(&m);
    let n = from_board(&nb);
    let e = apply(&p, &m);
    assert!(n.pc[0] == e.pc[0] && n.pc[1] == e.pc[1] && n.pc[2] == e.pc[2] && n.pc[3] == e.pc[3] && n.pc[4] == e.pc[4] && n.pc[5] == e.pc[5]);
    assert!(n.col[0] == e.col[0] && n.col[1] == e.col[1]);
    assert!(n.stm == e.stm);
    assert!(n.cr[0] == e.cr[0] && n.cr[1] == e.cr[1] && n.cr[2] == e.cr[2] && n.cr[3] == e.cr[3]);
    assert!(n.ep == e.ep);
    kani::cover!(m.move_type == MoveType::Castle);
    kani::cover!(m.move_type == MoveType::EnPassant);
    kani::cover!(m.move_type == MoveType::Promotion && e.cr[2] != p.cr[2]);
}

#[kani::proof]
#[kani::unwind(9)]
#[kani::stub(crate::magic::Magic::get_rook_attacks, stub_rook)]
#[kani::stub(crate::magic::Magic::get_bishop_attacks, stub_bishop)]
fn attacks_to_matches_spec() {
    let mg = mk_movegen();
    let b = any_board();
    let p = from_board(&b);
    kani::assume(structurally_valid(&p));
    let sq: u8 = kani::any(); kani::assume(sq < 64);
    let got = mg.attacks_to(&b, sq);
    let us = p.stm;
    let o = occ(&p) & !(p.pc[K] & p.col[us]);
    let want = attackers(&p, sq, 1 - us, o);
    assert!(got == want);
    core::mem::forget(mg);
}

#[kani::proof]
#[kani::unwind(17)]
#[kani::stub(crate::magic::Magic::get_rook_attacks, stub_rook)]
#[kani::stub(crate::magic::Magic::get_bishop_attacks, stub_bishop)]
fn is_legal_matches_spec() {
    let mg = mk_movegen();
    let b = any_board();
    let p = from_board(&b);
    kani::assume(valid(&p));
    let m = any_move();
    kani::assume(pseudo_legal(&p, &m));
    let got = crate::move_gen::vh::filter_one(&mg, &b, &m);
    let want = legal(&p, &m);
    assert!(got == want);
    kani::cover!(got && m.move_type == MoveType::EnPassant);
    kani::cover!(!got && m.move_type == MoveType::EnPassant);
    kani::cover!(got && m.move_type == MoveType::Castle);
    core::mem::forget(mg);
}

fn spec_count_steps(p: &Pos, pc: usize, steps: &[(i8,i8)]) -> u32 {
    let us = p.stm;
    let mut bb = p.pc[pc] & p.col[us];
    let mut n = 0u32;
    while bb != 0 {
        let sq = bb.trailing_zeros() as u8;
        bb &= bb - 1;
        n += (step_attacks(sq, steps) & !p.col[us]).count_ones();
    }
    n
}

#[kani::proof]
#[kani::unwind(12)]
#[kani::stub(crate::magic::Magic::get_rook_attacks, stub_rook)]
#[kani::stub(crate::magic::Magic::get_bishop_attacks, stub_bishop)]
fn gen_knights_matches_spec() {
    let mg = mk_movegen();
    let b = any_board();
    let p = from_board(&b);
    kani::assume(structurally_valid(&p));
    let us = p.stm;
    kani::assume((p.pc[N] & p.col[us]).count_ones() <= 2);
    let v = crate::move_gen::vh::gen_piece(&mg, &b, Piece::Knight);
    let len = v.len();
    assert!(len as u32 == spec_count_steps(&p, N, &KNIGHT_STEPS));
    let i: usize = kani::any(); let j: usize = kani::any();
    if i < len && j < len {
        let m = v[i];
        assert!(m.piece_type == Piece::Knight && (m.move_type == MoveType::Quiet || m.move_type == MoveType::Capture));
        assert!(pseudo_legal(&p, &m));
        if i != j { assert!(v[j] != m); }
    }
    kani::cover!(len == 16);
    core::mem::forget(v); core::mem::forget(mg);
}

fn any_move_of(mt: MoveType) -> Move {
    let from: u8 = kani::any(); let to: u8 = kani::any();
    kani::assume(from < 64 && to < 64);
    Move::new(from, to, any_piece(), mt)
}

fn legal_case(mt: MoveType, king: bool) {
    let mg = mk_movegen();
    let b = any_board();
    let p = from_board(&b);
    kani::assume(valid(&p));
    let mut m = any_move_of(mt);
    if king { m.piece_type = Piece::King; } else { kani::assume(m.piece_type != Piece::King); }
    kani::assume(pseudo_legal(&p, &m));
    let got = crate::move_gen::vh::filter_one(&mg, &b, &m);
    let want = legal(&p, &m);
    assert!(got == want);
    kani::cover!(got);
    kani::cover!(!got);
    core::mem::forget(mg);
}

#[kani::proof]
#[kani::unwind(17)]
#[kani::stub(crate::magic::Magic::get_rook_attacks, stub_rook)]
#[kani::stub(crate::magic::Magic::get_bishop_attacks, stub_bishop)]
fn legal_quiet_nonking() { legal_case(MoveType::Quiet, false); }

#[kani::proof]
#[kani::unwind(17)]
#[kani::stub(crate::magic::Magic::get_rook_attacks, stub_rook)]
#[kani::stub(crate::magic::Magic::get_bishop_attacks, stub_bishop)]
fn legal_ep() { legal_case(MoveType::EnPassant, false); }

#[kani::proof]
#[kani::unwind(17)]
#[kani::stub(crate::magic::Magic::get_rook_attacks, stub_rook)]
#[kani::stub(crate::magic::Magic::get_bishop_attacks, stub_bishop)]
fn legal_castle() { legal_case(MoveType::Castle, true); }

#[kani::proof]
#[kani::unwind(17)]
#[kani::stub(crate::magic::Magic::get_rook_attacks, stub_rook)]
#[kani::stub(crate::magic::Magic::get_bishop_attacks, stub_bishop)]
fn legal_king_capture() { legal_case(MoveType::Capture, true); }

fn legal_case_k(mt: MoveType, white: bool, ksq: u8) {
    let mg = mk_movegen();
    let mut b = any_board();
    b.active_color = if white { Color::White } else { Color::Black };
    let p = from_board(&b);
    kani::assume(p.pc[K] & p.col[p.stm] == 1u64 << ksq);
    kani::assume(valid(&p));
    let m = any_move_of(mt);
    kani::assume(m.piece_type != Piece::King);
    kani::assume(pseudo_legal(&p, &m));
    let got = crate::move_gen::vh::filter_one(&mg, &b, &m);
    let want = legal(&p, &m);
    assert!(got == want);
    kani::cover!(got);
    kani::cover!(!got);
    core::mem::forget(mg);
}
#[kani::proof]
#[kani::unwind(17)]
#[kani::stub(crate::magic::Magic::get_rook_attacks, stub_rook)]
#[kani::stub(crate::magic::Magic::get_bishop_attacks, stub_bishop)]
fn legal_quiet_w27() { legal_case_k(MoveType::Quiet, true, 27); }
#[kani::proof]
#[kani::unwind(17)]
#[kani::stub(crate::magic::Magic::get_rook_attacks, stub_rook)]
#[kani::stub(crate::magic::Magic::get_bishop_attacks, stub_bishop)]
fn legal_ep_w27() { legal_case_k(MoveType::EnPassant, true, 27); }
