use crate::magic::Magic;
use crate::tables_gen as t;

// reference: ray walk with blockers, independent of repo code
pub fn ref_rook(sq: u8, occ: u64) -> u64 {
    let r0 = (sq / 8) as i8; let f0 = (sq % 8) as i8;
    let mut a = 0u64;
    let dirs: [(i8,i8);4] = [(1,0),(-1,0),(0,1),(0,-1)];
    let mut d = 0;
    while d < 4 {
        let (dr, df) = dirs[d];
        let mut r = r0 + dr; let mut f = f0 + df;
        while r >= 0 && r < 8 && f >= 0 && f < 8 {
            let b = 1u64 << (r*8+f);
            a |= b;
            if occ & b != 0 { break; }
            r += dr; f += df;
        }
        d += 1;
    }
    a
}
pub fn ref_bishop(sq: u8, occ: u64) -> u64 {
    let r0 = (sq / 8) as i8; let f0 = (sq % 8) as i8;
    let mut a = 0u64;
    let dirs: [(i8,i8);4] = [(1,1),(-1,1),(1,-1),(-1,-1)];
    let mut d = 0;
    while d < 4 {
        let (dr, df) = dirs[d];
        let mut r = r0 + dr; let mut f = f0 + df;
        while r >= 0 && r < 8 && f >= 0 && f < 8 {
            let b = 1u64 << (r*8+f);
            a |= b;
            if occ & b != 0 { break; }
            r += dr; f += df;
        }
        d += 1;
    }
    a
}

fn magic_for(sq: usize, rook_t: &[u64], bishop_t: &[u64]) -> Magic {
    let mut rook_attacks: Vec<Vec<u64>> = Vec::with_capacity(64);
    let mut bishop_attacks: Vec<Vec<u64>> = Vec::with_capacity(64);
    let mut i = 0;
    while i < 64 {
        if i == sq { rook_attacks.push(rook_t.to_vec()); bishop_attacks.push(bishop_t.to_vec()); }
        else { rook_attacks.push(Vec::new()); bishop_attacks.push(Vec::new()); }
        i += 1;
    }
    Magic {
        rook_attack_masks: t::ROOK_MASKS,
        bishop_attack_masks: t::BISHOP_MASKS,
        rook_attacks, bishop_attacks,
        rook_magics: t::ROOK_MAGICS,
        bishop_magics: t::BISHOP_MAGICS,
    }
}

macro_rules! sq_harness {
    ($name:ident, $sq:literal, $rt:ident, $bt:ident) => {
        #[kani::proof]
        #[kani::unwind(66)]
        fn $name() {
            let m = magic_for($sq, &t::$rt, &t::$bt);
            let occ: u64 = kani::any();
            let got_r = m.get_rook_attacks($sq, occ);
            assert!(got_r == ref_rook($sq, occ));
            let got_b = m.get_bishop_attacks($sq, occ);
            assert!(got_b == ref_bishop($sq, occ));
            core::mem::forget(m);
        }
    };
}
sq_harness!(sliders_sq0, 0, ROOK_T0, BISHOP_T0);
sq_harness!(sliders_sq27, 27, ROOK_T27, BISHOP_T27);
