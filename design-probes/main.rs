#![recursion_limit = "1024"]
#![allow(dead_code, unused_imports, unused_variables)]
macro_rules! real_mod {
    ($name:ident, $file:literal) => {
        pub mod $name { include!(concat!("/repo/src/", $file)); }
    };
}
real_mod!(bitboard, "bitboard.rs");
pub mod eval { include!("/repo/src/eval.rs");
    pub mod vh { use super::*;
        pub fn with_state(g: i32, o: i32, e: i32) -> Evaluator { Evaluator { gamephase: g, opening_score: o, endgame_score: e } }
        pub fn piece_contrib(color: Color, piece: Piece, b: &Board) -> (i32, i32, i32) {
            let mut ev = Evaluator { gamephase: 0, opening_score: 0, endgame_score: 0 };
            ev.eval_piece_type(color, piece, b);
            (ev.opening_score, ev.endgame_score, ev.gamephase)
        }
    }
}
pub mod fen { include!("/repo/src/fen.rs");
    pub mod vh { use super::*;
        pub fn fullmove(s: &str) -> u8 { parse_fullmove_counter(s) }
        pub fn placement(s: &str) -> Result<Position, String> { parse_piece_placement(s) }
    }
}
pub mod history { include!("/repo/src/history.rs");
    #[cfg(kani)] pub mod vh { use super::*; pub fn havoc() -> HistoryTable { HistoryTable { scores: kani::any() } } }
}
real_mod!(killer_moves, "killer_moves.rs");
real_mod!(lookup, "lookup.rs");
real_mod!(magic, "magic.rs");
real_mod!(moves, "moves.rs");
real_mod!(pieces, "pieces.rs");
real_mod!(repetition, "repetition.rs");
real_mod!(square, "square.rs");
real_mod!(timer, "timer.rs");
#[cfg(not(kani))] real_mod!(transposition, "transposition.rs");
#[cfg(kani)] pub mod transposition { include!("/tmp/fprobe/gen/transposition.rs"); }
#[cfg(kani)] pub mod shim;
real_mod!(util, "util.rs");
pub mod zobrist { include!("/repo/src/zobrist.rs");
    pub mod vh { use super::*;
        pub fn zero() -> ZobristTable { ZobristTable { table_keys: [[[0; 64]; 6]; 2], white_to_move_key: 0, castling_right_keys: [[0;2];2], en_passant_target_key: [0;64] } }
        pub fn from_keys(table_keys: [[[u64; 64]; 6]; 2], w: u64, c: [[u64;2];2], e: [u64;64]) -> ZobristTable { ZobristTable { table_keys, white_to_move_key: w, castling_right_keys: c, en_passant_target_key: e } }
    }
}
pub mod board {
    include!("/repo/src/board.rs");
    pub mod vh {
        use super::*;
        pub fn position_from_raw(pieces: [u64; 6], colors: [u64; 2]) -> Position {
            Position { pieces, colors }
        }
    }
}
#[cfg(kani)] pub mod shimvec;
pub mod move_gen {
    #[cfg(all(kani, shimvec))] use crate::shimvec::Vec;
    include!("/repo/src/move_gen.rs");
    pub mod vh {
        use super::*;
        pub fn filter_one(mg: &MoveGenerator, board: &Board, mv: &Move) -> bool {
            let king_square = mg.king_square(board);
            let pinned_pieces = mg.get_pinned_pieces(board, king_square);
            let checkers = mg.attacks_to(board, king_square);
            mg.is_legal(board, mv, checkers, pinned_pieces, king_square)
        }
        pub fn gen_piece(mg: &MoveGenerator, board: &Board, piece: Piece) -> Vec<Move> {
            let mut v = Vec::new(); mg.generate_pseudo_legal_moves(board, piece, &mut v); v
        }
        pub fn gen_pawns(mg: &MoveGenerator, board: &Board) -> Vec<Move> {
            let mut v = Vec::new(); mg.generate_pseudo_legal_pawn_moves(board, &mut v); v
        }
        pub fn gen_castles(mg: &MoveGenerator, board: &Board) -> Vec<Move> {
            let mut v = Vec::new(); mg.generate_pseudo_legal_castles(board, &mut v); v
        }
        pub fn q_pred(mg: &MoveGenerator, board: &Board, mv: &Move) -> bool {
            mg.is_capture(mv) || mg.is_promotion(mv) || mg.is_check(board, mv)
        }
    }
}
pub mod search { include!("/repo/src/search.rs");
    pub mod vh {
        use super::*;
        pub const NEG_INF: i32 = NEGATIVE_INFINITY;
        pub const INF: i32 = INFINITY;
        pub const CM: i32 = CHECKMATE_SCORE;
        pub fn mk_searcher(mg: MoveGenerator, z: ZobristTable, tt: TranspositionTable) -> Searcher {
            Searcher { move_generator: mg, evaluator: Evaluator::new(), zobrist: z, transposition_table: tt,
                killer_moves: KillerMoves::new(), timer: SearchTimer::new(), repetition: RepetitionTable::new(), history: HistoryTable::new() }
        }
        pub fn rep_len(s: &Searcher) -> usize { s.repetition.len() }
    }
}
pub mod uci { include!("/repo/src/uci.rs"); }

#[cfg(not(kani))] mod dump;
//#[cfg(kani)] mod tables_gen;
//#[cfg(kani)] mod harness;
#[cfg(kani)] mod h_tt;
#[cfg(kani)] mod spec;
#[cfg(kani)] mod tables_small;
#[cfg(kani)] mod h_mg;
#[cfg(kani)] mod h_search;
#[cfg(kani)] mod h_misc;
#[cfg(not(kani))]
fn main() {
    if std::env::args().nth(1).as_deref()==Some("dump") { std::fs::write("/tmp/fprobe/src/tables_gen.rs", dump::dump()).unwrap(); return; }
    let mg = move_gen::MoveGenerator::new();
    let b = board::Board::default();
    println!("{}", mg.generate_moves(&b).len());
}
#[cfg(kani)]
fn main() {}
