use crate::board::{Board, Castle};
use crate::board::vh::position_from_raw;
use crate::pieces::{Color, Piece};
use crate::spec::*;
use crate::h_mg::any_board;

fn counts_ok(p: &Pos) -> bool {
    let mut ok = true;
    let mut c = 0;
    while c < 2 {
        let s = p.col[c];
        ok = ok && (p.pc[P] & s).count_ones() <= 8 && (p.pc[N] & s).count_ones() <= 10 && (p.pc[B] & s).count_ones() <= 10
            && (p.pc[R] & s).count_ones() <= 10 && (p.pc[Q] & s).count_ones() <= 9 && s.count_ones() <= 16;
        c += 1;
    }
    ok
}

#[kani::proof]
#[kani::unwind(12)]
fn eval_symmetry_bound() {
    let b = any_board();
    let p = from_board(&b);
    kani::assume(structurally_valid(&p) && counts_ok(&p));
    let mut e = crate::eval::vh::with_state(kani::any(), kani::any(), kani::any());
    let v1 = e.evaluate(&b);
    let mut b2 = b; b2.active_color = !b.active_color;
    let v2 = e.evaluate(&b2);
    assert!(v2 == -v1);
    let b3 = Board {
        position: position_from_raw([p.pc[0].swap_bytes(), p.pc[1].swap_bytes(), p.pc[2].swap_bytes(), p.pc[3].swap_bytes(), p.pc[4].swap_bytes(), p.pc[5].swap_bytes()], [p.col[1].swap_bytes(), p.col[0].swap_bytes()]),
        active_color: !b.active_color, castling_ability: b.castling_ability, en_passant_target: None, halfmove_clock: 0, fullmove_counter: 1 };
    let v3 = e.evaluate(&b3);
    assert!(v3 == v1);
    assert!(v1 > -20000 && v1 < 20000);
}

#[kani::proof]
#[kani::unwind(12)]
fn zobrist_is_xor_of_feature_keys() {
    let b = any_board();
    let p = from_board(&b);
    kani::assume(structurally_valid(&p) && counts_ok(&p) && p.ep <= 64);
    let tk: [[[u64; 64]; 6]; 2] = kani::any();
    let w: u64 = kani::any();
    let ck: [[u64; 2]; 2] = kani::any();
    let ek: [u64; 64] = kani::any();
    let z = crate::zobrist::vh::from_keys(tk, w, ck, ek);
    let got = z.hash(&b);
    let mut want = 0u64;
    let mut c = 0;
    while c < 2 { let mut k = 0; while k < 6 { let mut r = 0; while r < 8 { let mut f = 0; while f < 8 {
        let s = r * 8 + f;
        if ((p.pc[k] & p.col[c]) >> s) & 1 == 1 { want ^= tk[c][k][s]; }
        f += 1; } r += 1; } k += 1; } c += 1; }
    if p.cr[0] { want ^= ck[0][0]; } if p.cr[1] { want ^= ck[0][1]; }
    if p.cr[2] { want ^= ck[1][0]; } if p.cr[3] { want ^= ck[1][1]; }
    if p.ep < 64 { want ^= ek[p.ep as usize]; }
    if p.stm == 0 { want ^= w; }
    assert!(got == want);
}

#[kani::proof]
#[kani::unwind(11)]
fn eval_piece_antisym() {
    let b = any_board();
    let p = from_board(&b);
    kani::assume(structurally_valid(&p) && counts_ok(&p));
    let piece = crate::h_mg::any_piece();
    let (o1, e1, g1) = crate::eval::vh::piece_contrib(Color::White, piece, &b);
    let (o2, e2, g2) = crate::eval::vh::piece_contrib(Color::Black, piece, &b);
    assert!(o2 == -o1 && e2 == -e1 && g2 == g1);
    let b3 = Board {
        position: position_from_raw([p.pc[0].swap_bytes(), p.pc[1].swap_bytes(), p.pc[2].swap_bytes(), p.pc[3].swap_bytes(), p.pc[4].swap_bytes(), p.pc[5].swap_bytes()], [p.col[1].swap_bytes(), p.col[0].swap_bytes()]),
        active_color: !b.active_color, castling_ability: b.castling_ability, en_passant_target: None, halfmove_clock: 0, fullmove_counter: 1 };
    let (o3, e3, g3) = crate::eval::vh::piece_contrib(Color::Black, piece, &b3);
    assert!(o3 == o1 && e3 == e1 && g3 == g1);
}

#[kani::proof]
#[kani::unwind(6)]
fn fen_fullmove_no_panic() {
    let d: [u8; 4] = kani::any();
    let len: usize = kani::any();
    kani::assume(len >= 1 && len <= 4);
    let mut i = 0;
    while i < 4 { kani::assume(d[i] >= b'0' && d[i] <= b'9'); i += 1; }
    kani::assume(d[0] != b'0');
    let s = unsafe { core::str::from_utf8_unchecked(&d[..len]) };
    let _ = crate::fen::vh::fullmove(s);
}
