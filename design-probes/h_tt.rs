use crate::transposition::{TranspositionTable, Bounds, Entry};
use crate::moves::{Move, MoveType};
use crate::pieces::Piece;

fn any_bounds() -> Bounds {
    let b: u8 = kani::any();
    kani::assume(b < 3);
    match b { 0 => Bounds::Exact, 1 => Bounds::Lower, _ => Bounds::Upper }
}

#[kani::proof]
#[kani::unwind(8)]
fn tt_two_stores() {
    let mut tt = TranspositionTable::new();
    let k1: u64 = kani::any();
    let k2: u64 = kani::any();
    let d1: u8 = kani::any();
    let d2: u8 = kani::any();
    let e1: i32 = kani::any();
    let e2: i32 = kani::any();
    tt.store(k1, e1, None, d1, any_bounds());
    tt.store(k2, e2, None, d2, any_bounds());
    let q: u64 = kani::any();
    let r = tt.retrieve(q);
    if q != k1 && q != k2 { assert!(r.is_none()); }
    else if k1 != k2 {
        let e = r.unwrap();
        if q == k1 { assert!(e.eval == e1 && e.depth == d1); } else { assert!(e.eval == e2 && e.depth == d2); }
    } else {
        let e = r.unwrap();
        if d2 >= d1 { assert!(e.eval == e2 && e.depth == d2); } else { assert!(e.eval == e1 && e.depth == d1); }
    }
    core::mem::forget(tt);
}
