//! Bounded association-list model of std::collections::HashMap (only the API the engine uses).
pub const CAP: usize = 8;
pub struct HashMap<K: Copy + Eq, V: Copy> {
    used: [bool; CAP],
    keys: [Option<K>; CAP],
    vals: [Option<V>; CAP],
}
impl<K: Copy + Eq, V: Copy> HashMap<K, V> {
    pub fn new() -> Self { Self { used: [false; CAP], keys: [None; CAP], vals: [None; CAP] } }
    pub fn get(&self, k: &K) -> Option<&V> {
        let mut i = 0;
        while i < CAP {
            if self.used[i] { if let Some(kk) = &self.keys[i] { if *kk == *k { return self.vals[i].as_ref(); } } }
            i += 1;
        }
        None
    }
    pub fn insert(&mut self, k: K, v: V) -> Option<V> {
        let mut i = 0; let mut free = CAP;
        while i < CAP {
            if self.used[i] { if let Some(kk) = &self.keys[i] { if *kk == k { let old = self.vals[i]; self.vals[i] = Some(v); return old; } } }
            else if free == CAP { free = i; }
            i += 1;
        }
        assert!(free < CAP, "shim HashMap capacity exceeded (bound of the model)");
        self.used[free] = true; self.keys[free] = Some(k); self.vals[free] = Some(v);
        None
    }
    pub fn len(&self) -> usize { let mut n = 0; let mut i = 0; while i < CAP { if self.used[i] { n += 1; } i += 1; } n }
}
