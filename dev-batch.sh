#!/bin/sh
# dev helper: ./dev-batch.sh <crate> <extra-args-or-""> harness...   runs harnesses in parallel (own target dirs), prints one summary line each
crate=$1; extra=$2; shift 2
mkdir -p /verif/.work/dev
touch /verif/kani/$crate/src/main.rs
for h in "$@"; do
  name=$(echo "$h" | sed 's/.*:://')
  ( cd /verif/kani/$crate && CARGO_NET_OFFLINE=true timeout ${KTIMEOUT:-1800} cargo kani --harness "$h" --exact --target-dir /verif/.work/devtd/$crate-$name $extra > /verif/.work/dev/$name.log 2>&1
    v=$(grep -o "VERIFICATION:- [A-Z]*" /verif/.work/dev/$name.log | head -1)
    t=$(grep -o "Verification Time: [0-9.]*" /verif/.work/dev/$name.log)
    sx=$(grep -o "Runtime Symex: [0-9.]*" /verif/.work/dev/$name.log)
    va=$(grep -o "[0-9]* variables, [0-9]* clauses" /verif/.work/dev/$name.log | tail -1)
    f=$(grep -A2 "Status: FAILURE" /verif/.work/dev/$name.log | grep Description | sort | uniq -c | head -5 | tr '\n' ' ')
    c=$(grep -B1 -A2 "cover" /verif/.work/dev/$name.log | grep -c "Status: SATISFIED")
    cu=$(grep -A1 "\.cover\." /verif/.work/dev/$name.log | grep -c "Status: UNSATISFIABLE\|Status: UNREACHABLE")
    echo "$name: ${v:-NO-VERDICT} | $t | $sx | $va | covers sat=$c unsat=$cu | $f" ) &
done
wait
