"""Kani/CBMC harness runner: parallel workers with private target dirs, output parsing,
counterexample extraction, native replay, evidence writing."""
import hashlib
import json
import os
import re
import shutil
import signal
import subprocess
import sys
import threading
import time
from concurrent.futures import ThreadPoolExecutor

VERIF = os.path.dirname(os.path.dirname(os.path.abspath(__file__)))
REPO = os.environ.get("VERIF_REPO", "/repo")
# The defaults are what the registered checks use: /repo's working tree, the crates under /verif/kani, scratch under
# /verif/.work, evidence under /verif/evidence.  The overrides exist so that seeded/run-against-copy.sh can point a
# check at a patched COPY of the repository (own copy of the harness crates, own scratch and evidence directories)
# without touching /repo or the committed evidence.
WORK = os.environ.get("VERIF_WORK") or os.path.join(VERIF, ".work")
KANI_DIR = os.environ.get("VERIF_KANI") or os.path.join(VERIF, "kani")
EVIDENCE_DIR = os.environ.get("VERIF_EVIDENCE") or os.path.join(VERIF, "evidence")
REPLAY_DIR = os.environ.get("VERIF_REPLAYS") or os.path.join(VERIF, "replays")
CRATES = {
    "rules": os.path.join(KANI_DIR, "rules"),
    "magic": os.path.join(KANI_DIR, "magic"),
    "search": os.path.join(KANI_DIR, "search"),
}
ENV = dict(os.environ, CARGO_NET_OFFLINE="true", CARGO_TERM_COLOR="never", FLOUNDER_SRC=os.path.join(REPO, "src"))


def log(*a):
    print(*a, flush=True)


# ----------------------------------------------------------------------------- process helpers

def _group_rss_kb(pgid):
    """Total RSS (kB) of all processes in process group pgid."""
    total = 0
    for d in os.listdir("/proc"):
        if not d.isdigit():
            continue
        try:
            with open(f"/proc/{d}/stat") as f:
                st = f.read()
            # pgrp is field 5; comm may contain spaces -> split after last ')'
            rest = st[st.rindex(")") + 2:].split()
            if int(rest[2]) != pgid:
                continue
            with open(f"/proc/{d}/statm") as f:
                total += int(f.read().split()[1]) * 4
        except Exception:
            continue
    return total


def run_limited(cmd, cwd, timeout_s, mem_gb, logfile, env=None):
    """Run cmd in its own process group; kill the group on timeout or when RSS exceeds mem_gb.
    Returns (rc, why) where why in {None,'timeout','memory'} and peak_rss_gb."""
    with open(logfile, "w") as lf:
        p = subprocess.Popen(cmd, cwd=cwd, stdout=lf, stderr=subprocess.STDOUT, env=env or ENV,
                             start_new_session=True)
    t0 = time.time()
    why = None
    peak = 0
    while True:
        try:
            p.wait(timeout=2.0)
            break
        except subprocess.TimeoutExpired:
            pass
        rss = _group_rss_kb(p.pid)
        peak = max(peak, rss)
        if time.time() - t0 > timeout_s:
            why = "timeout"
        elif rss > mem_gb * 1024 * 1024:
            why = "memory"
        if why:
            try:
                os.killpg(p.pid, signal.SIGKILL)
            except ProcessLookupError:
                pass
            p.wait()
            break
    return p.returncode, why, peak / (1024.0 * 1024.0)


# ----------------------------------------------------------------------------- kani output parsing

CHECK_RE = re.compile(r"^Check (\d+): (\S+)\n\t - Status: (\w+)\n\t - Description: \"(.*)\"\n(?:\t - Location: (.*)\n)?", re.M)


def parse_kani_log(text):
    r = {"verdict": None, "checks_total": 0, "checks_failed": 0, "failed": [], "covers": {},
         "symex_s": None, "solver_s": 0.0, "steps": None, "variables": None, "clauses": None,
         "unwind_failed": False, "playback": None, "unsupported": [], "compile_error": False}
    for m in CHECK_RE.finditer(text):
        num, name, status, desc, loc = m.groups()
        if ".cover." in name or name.endswith(".cover") or re.search(r"\.cover\.\d+$", name):
            # the same cover! may be instantiated several times (duplicated MIR blocks): any SATISFIED instance counts
            if r["covers"].get(desc) != "SATISFIED":
                r["covers"][desc] = status
                r.setdefault("cover_names", {})[desc] = name
            continue
        r["checks_total"] += 1
        if status == "FAILURE":
            r["checks_failed"] += 1
            r["failed"].append({"check": name, "description": desc, "location": loc or ""})
            if "unwinding assertion" in desc:
                r["unwind_failed"] = True
        elif status == "UNDETERMINED":
            pass
    m = re.search(r"VERIFICATION:- (SUCCESSFUL|FAILED)", text)
    if m:
        r["verdict"] = m.group(1)
    m = re.search(r"Runtime Symex: ([\d.e+-]+)s", text)
    if m:
        r["symex_s"] = float(m.group(1))
    for m in re.finditer(r"Runtime Solver: ([\d.e+-]+)s", text):
        r["solver_s"] += float(m.group(1))
    m = re.search(r"size of program expression: (\d+) steps", text)
    if m:
        r["steps"] = int(m.group(1))
    for m in re.finditer(r"(\d+) variables, (\d+) clauses", text):
        r["variables"], r["clauses"] = int(m.group(1)), int(m.group(2))
    if re.search(r"^error(\[E\d+\])?:", text, re.M) and r["verdict"] is None:
        r["compile_error"] = True
    for m in re.finditer(r"unsupported (?:feature|construct)[^\n]*", text, re.I):
        r["unsupported"].append(m.group(0)[:200])
    # concrete playback blocks: one per failed check and one per satisfied cover
    r["cover_samples"] = {}
    for blk in text.split("Concrete playback unit test for")[1:]:
        m = re.search(r"/// Check for `(\w+)`: \"(.*)\"", blk)
        kind, desc = (m.group(1), m.group(2)) if m else ("?", "?")
        end = blk.find("];")
        body = blk[:end if end > 0 else len(blk)]
        vals = []
        for line in body.splitlines():
            lm = re.match(r"^\s*vec!\[([0-9, ]*)\],?\s*$", line)
            if lm:
                vals.append([int(x) for x in lm.group(1).split(",") if x.strip()])
        if kind == "cover":
            r["cover_samples"][desc] = vals
        elif r["playback"] is None:
            r["playback"] = vals
            r["playback_check"] = desc
    return r


# ----------------------------------------------------------------------------- building

NO_DEFAULT_FEATURES = set()
_build_lock = threading.Lock()
_native_built = {}


def touch_roots():
    for c in CRATES.values():
        p = os.path.join(c, "src", "main.rs")
        if os.path.exists(p):
            os.utime(p, None)


def native_build(crate, profile="dev"):
    """Build the native replay/dump binary of a harness crate from the current /repo tree."""
    key = (crate, profile)
    with _build_lock:
        if key in _native_built:
            return _native_built[key]
        cdir = CRATES[crate]
        td = os.path.join(WORK, "native", crate)
        os.makedirs(td, exist_ok=True)
        cmd = ["cargo", "build", "--offline", "--quiet", "--target-dir", td]
        if profile == "release":
            cmd.append("--release")
        if crate in NO_DEFAULT_FEATURES:
            cmd.append("--no-default-features")
        lf = os.path.join(WORK, f"native_{crate}_{profile}.log")
        os.utime(os.path.join(cdir, "src", "main.rs"), None)
        rc = subprocess.call(cmd, cwd=cdir, stdout=open(lf, "w"), stderr=subprocess.STDOUT, env=ENV)
        if rc != 0 and crate == "rules" and crate not in NO_DEFAULT_FEATURES:
            # the only optional feature reads ZobristTable's private fields: if the tree's layout changed, go on
            # without it (the field-reading C11 harnesses become INCONCLUSIVE, everything else still runs)
            rc2 = subprocess.call(cmd + ["--no-default-features"], cwd=cdir, stdout=open(lf + ".nofeat", "w"), stderr=subprocess.STDOUT, env=ENV)
            if rc2 == 0:
                NO_DEFAULT_FEATURES.add(crate)
                log(f"NOTE: crate {crate} does not build with the feature zobrist_fields against this tree (private layout of ZobristTable changed?); continuing without it")
                rc = 0
        name = {"rules": "frules", "magic": "fmagic", "search": "fsearch"}[crate]
        binp = os.path.join(td, "release" if profile == "release" else "debug", name)
        res = (rc == 0 and os.path.exists(binp), binp, lf)
        _native_built[key] = res
        return res


def gen_registry(crate):
    """Generate src/gen/registry.rs (native name -> fn table) by scanning harness sources."""
    cdir = CRATES[crate]
    src = os.path.join(cdir, "src")
    entries = []
    for fn in sorted(os.listdir(src)):
        if not (fn.startswith("h_") and fn.endswith(".rs")):
            continue
        mod = fn[:-3]
        txt = open(os.path.join(src, fn)).read()
        for m in re.finditer(r"kani::proof\)\]\s*(?:#\[[^\n]*\]\s*)*pub fn (\w+)\s*\(\)", txt):
            entries.append((m.group(1), f"crate::{mod}::{m.group(1)}"))
        for m in re.finditer(r"^\s*(?:\w+_harness)!\((\w+)\s*,", txt, re.M):
            entries.append((m.group(1), f"crate::{mod}::{m.group(1)}"))
        # macro-generated case harnesses register themselves with a `// @harness name path` line
        for m in re.finditer(r"^// @harness (\w+) (\S+)$", txt, re.M):
            entries.append((m.group(1), m.group(2)))
    gdir = os.path.join(src, "gen")
    os.makedirs(gdir, exist_ok=True)
    # generated case files (src/gen/h_*.rs, include!d into a harness module) register the same way
    for fn in sorted(os.listdir(gdir)):
        if fn.startswith("h_") and fn.endswith(".rs"):
            for m in re.finditer(r"^// @harness (\w+) (\S+)$", open(os.path.join(gdir, fn)).read(), re.M):
                entries.append((m.group(1), m.group(2)))
    out = ["// generated by lib/runner.py gen_registry(); do not edit",
           "pub fn lookup(name: &str) -> Option<fn()> {", "    match name {"]
    for n, p in entries:
        if "::h_zfields::" in p:
            out.append("        #[cfg(feature = \"zobrist_fields\")]")
        out.append(f"        \"{n}\" => Some({p}),")
    out += ["        _ => None,", "    }", "}", ""]
    new = "\n".join(out)
    path = os.path.join(gdir, "registry.rs")
    if not os.path.exists(path) or open(path).read() != new:
        open(path, "w").write(new)
    return [n for n, _ in entries]


# ----------------------------------------------------------------------------- running one harness

class Harness:
    def __init__(self, crate, name, timeout_s=600, mem_gb=8, stubbing=False, covers_required=True,
                 extra_args=None, note="", witnesses=False, optional=False):
        self.crate, self.path = crate, name
        self.name = name.split("::")[-1]
        self.timeout_s, self.mem_gb = timeout_s, mem_gb
        self.stubbing = stubbing
        self.covers_required = covers_required
        self.extra_args = extra_args or []
        self.note = note
        # optional: a harness of the thorough tier that is known to sit at the edge of this machine.  If it runs out of
        # time or memory it is reported as NOT EXPLORED (evidence, stdout) and does not change the exit code; a
        # counterexample, a vacuous pass or a non-reproducing counterexample of an optional harness count like any other.
        self.optional = optional
        self.witnesses = witnesses   # also ask the solver for concrete inputs of satisfied covers (costly on big harnesses)


PRIVATE_COVER_MODULES = {"h_loop"}
CBMC_FLAGS = ["--no-malloc-may-fail", "--no-undefined-shift-check", "--no-signed-overflow-check", "--nan-check",
              "--no-self-loops-to-assumptions", "--no-pointer-primitive-check", "--object-bits", "16",
              "--sat-solver", "cadical", "--slice-formula"]


def find_goto_binary(h, slot):
    """The goto binary Kani produced for harness h in this slot's target dir, and its unwind value."""
    td = os.path.join(WORK, "td", h.crate, str(slot))
    best = None
    for root, _dirs, files in os.walk(os.path.join(td, "kani")):
        for fn in files:
            if fn.endswith(".out") and not fn.endswith(".symtab.out") and re.search(r"\d+" + re.escape(h.name) + r"\.out$", fn):
                pth = os.path.join(root, fn)
                if best is None or os.path.getmtime(pth) > os.path.getmtime(best):
                    best = pth
    if not best:
        return None, None
    unwind = None
    try:
        for fn in os.listdir(os.path.dirname(best)):
            if fn.endswith(".kani-metadata.json"):
                md = json.load(open(os.path.join(os.path.dirname(best), fn)))
                for ph in md.get("proof_harnesses", []):
                    if ph.get("pretty_name", "").split("::")[-1] == h.name:
                        unwind = ph.get("attributes", {}).get("unwind_value")
    except Exception:
        pass
    return best, unwind


TRACE_RE = re.compile(r"^\s*goto_symex\$\$return_value\$\$\S*any_raw\S*=.*\(([01 ]+)\)\s*$", re.M)


def extract_values(h, slot, logdir, prop_name, tag, sliced=True):
    """Ask CBMC directly for a trace of one property (failed check or satisfied cover) of the goto binary
    Kani built, and read the kani::any() values off it in call order.  (Kani's own concrete-playback mode
    builds JSON traces without slicing and did not finish within 30 min on these harnesses; this takes seconds.)"""
    gb, unwind = find_goto_binary(h, slot)
    if not gb:
        return None, "goto binary not found"
    more = []
    if "--cbmc-args" in h.extra_args:
        more = h.extra_args[h.extra_args.index("--cbmc-args") + 1:]
    flags = [f for f in CBMC_FLAGS if sliced or f != "--slice-formula"]
    cmd = ["cbmc"] + flags + (["--unwind", str(unwind)] if unwind else []) + more + ["--trace", "--property", prop_name, gb]
    lf = os.path.join(logdir, f"{h.name}.trace.{tag}.log")
    rc, why, _peak = run_limited(cmd, os.path.dirname(gb), max(600, h.timeout_s), h.mem_gb * 2, lf)
    if why:
        return None, f"trace extraction {why}"
    text = open(lf, errors="replace").read()
    if "VERIFICATION FAILED" not in text:
        return None, "cbmc did not reproduce the failure for " + prop_name
    vals = []
    for m in TRACE_RE.finditer(text):
        bits = m.group(1).replace(" ", "")
        by = [int(bits[i:i + 8], 2) for i in range(0, len(bits), 8)]
        by.reverse()   # printed most-significant byte first; vectors are little-endian
        vals.append(by)
    return vals, None


def run_kani(h, slot, logdir, playback=None):
    r = _run_kani(h, slot, logdir, False)
    if r["status"] == "failed":
        real = [f for f in r["failed"] if "unwinding assertion" not in f["description"]]
        # prefer the harness's own assertion (a message starting with the property id) over incidental checks
        real.sort(key=lambda f: 0 if re.match(r'^"?C\d\d', f["description"]) else 1)
        t0 = time.time()
        vals, err = extract_values(h, slot, logdir, real[0]["check"], "cex")
        r["playback"] = vals
        r["playback_check"] = real[0]["description"]
        r["playback_check_name"] = real[0]["check"]
        r["playback_error"] = err
        r["slot"] = slot
        r["logdir"] = logdir
        r["wall_s"] = round(r["wall_s"] + time.time() - t0, 1)
    elif r["status"] == "pass" and h.witnesses:
        r["cover_samples"] = {}
        for i, (desc, st) in enumerate(list(r["covers"].items())[:3]):
            nm = r.get("cover_names", {}).get(desc)
            if st == "SATISFIED" and nm:
                vals, err = extract_values(h, slot, logdir, nm, f"cover{i}")
                if vals:
                    r["cover_samples"][desc] = vals
    return r


def _run_kani(h, slot, logdir, playback, suffix="", scale=1):
    cdir = CRATES[h.crate]
    td = os.path.join(WORK, "td", h.crate, str(slot))
    os.makedirs(td, exist_ok=True)
    os.makedirs(logdir, exist_ok=True)
    logfile = os.path.join(logdir, f"{h.name}{suffix}.log")
    cmd = ["cargo", "kani", "--harness", h.path, "--exact", "--target-dir", td]
    if playback:
        cmd += ["-Z", "concrete-playback", "--concrete-playback=print"]
    if h.stubbing:
        cmd += ["-Z", "stubbing"]
    if h.crate in NO_DEFAULT_FEATURES:
        cmd += ["--no-default-features"]
    cmd += h.extra_args
    t0 = time.time()
    rc, why, peak = run_limited(cmd, cdir, h.timeout_s * scale, h.mem_gb * scale, logfile)
    wall = time.time() - t0
    text = open(logfile, errors="replace").read()
    r = parse_kani_log(text)
    r.update({"harness": h.name, "crate": h.crate, "wall_s": round(wall, 1), "peak_rss_gb": round(peak, 2),
              "rc": rc, "killed": why, "log": logfile})
    # classification
    if why:
        r["status"] = "inconclusive"
        r["reason"] = f"{why} (cap {h.timeout_s}s / {h.mem_gb}GB)"
    elif r["compile_error"] or r["verdict"] is None:
        r["status"] = "inconclusive"
        r["reason"] = "no verdict (build error, unsupported construct or CBMC error); see log"
    elif r["verdict"] == "SUCCESSFUL":
        # witnesses that sit in another harness family's private code (reachable only syntactically, e.g. the C16
        # final checks hanging off the exit model) say nothing about this harness
        hmod = h.path.split("::")[0]
        foreign = {d for d, nm in r.get("cover_names", {}).items() if nm.split("::")[0] in PRIVATE_COVER_MODULES and nm.split("::")[0] != hmod}
        bad = [d for d, s in r["covers"].items() if s != "SATISFIED" and d not in foreign]
        if isinstance(h.covers_required, (list, tuple, set)):
            # only the named witnesses are required (others are meaningless in this case of a split)
            bad = [d for d in h.covers_required if r["covers"].get(d) != "SATISFIED"]
        if bad and h.covers_required:
            r["status"] = "inconclusive"
            r["reason"] = "vacuity: reachability witness not satisfied: " + "; ".join(bad)
        else:
            r["status"] = "pass"
    else:
        real = [f for f in r["failed"] if "unwinding assertion" not in f["description"]]
        if not real and r["unwind_failed"]:
            r["status"] = "inconclusive"
            r["reason"] = "unwinding assertion failed: loop bound of the harness too small"
        elif not real and "unwinding failures" in text:
            r["status"] = "inconclusive"
            r["reason"] = "unwinding assertion failed: loop bound of the harness too small"
        elif not real and "run out of memory" in text:
            r["status"] = "inconclusive"
            r["reason"] = "CBMC ran out of memory"
            r["killed"] = "memory"
        elif not real:
            r["status"] = "inconclusive"
            r["reason"] = "FAILED without a failed check (cover-only failure or CBMC error)"
        else:
            r["status"] = "failed"
    return r


def save_vals(prop, r):
    """Write the solver's concrete input vectors to /verif/replays/<prop>/<harness>.<digest>.vals"""
    vals = r.get("playback")
    if not vals:
        return None
    d = os.path.join(REPLAY_DIR, prop)
    os.makedirs(d, exist_ok=True)
    body = "\n".join(" ".join(str(b) for b in v) for v in vals) + "\n"
    dig = hashlib.sha1((r["harness"] + body).encode()).hexdigest()[:10]
    path = os.path.join(d, f"{r['harness']}.{dig}.vals")
    with open(path, "w") as f:
        f.write(f"# crate={r['crate']} harness={r['harness']}\n")
        for fc in r["failed"][:8]:
            f.write(f"# failed: {fc['description']} @ {fc['location']}\n")
        f.write(body)
    return path


def replay_native(crate, harness, path, profiles=("dev", "release")):
    """Re-run a harness body natively on concrete vectors. Returns dict with per-profile result."""
    out = {"reproduced": False, "profiles": {}}
    for prof in profiles:
        ok, binp, lf = native_build(crate, prof)
        if not ok:
            out["profiles"][prof] = {"error": f"native build failed, see {lf}"}
            continue
        try:
            cp = subprocess.run([binp, "replay", harness, path], capture_output=True, text=True, timeout=600, env=ENV)
        except subprocess.TimeoutExpired:
            out["profiles"][prof] = {"error": "native replay timed out"}
            continue
        line = cp.stdout.strip().splitlines()[-1] if cp.stdout.strip() else ""
        try:
            j = json.loads(line)
        except Exception:
            j = {"error": "unparsable replay output", "stdout": cp.stdout[-500:], "stderr": cp.stderr[-500:]}
        j["rc"] = cp.returncode
        out["profiles"][prof] = j
        if cp.returncode == 1 and j.get("failures"):
            out["reproduced"] = True
    return out


def decode_cover_witnesses(prop, r, limit=3):
    """Decode the solver's witnesses for satisfied covers into readable inputs (FEN, move, ...)
    by running the harness body natively on them (dev profile)."""
    out = {}
    d = os.path.join(WORK, "covers", prop)
    os.makedirs(d, exist_ok=True)
    for i, (desc, vals) in enumerate(list(r.get("cover_samples", {}).items())[:limit]):
        if not vals:
            continue
        path = os.path.join(d, f"{r['harness']}.{i}.vals")
        with open(path, "w") as f:
            f.write(f"# crate={r['crate']} harness={r['harness']} cover={desc}\n")
            f.write("\n".join(" ".join(str(b) for b in v) for v in vals) + "\n")
        rep = replay_native(r["crate"], r["harness"], path, profiles=("dev",))
        j = rep["profiles"].get("dev", {})
        out[desc] = {"inputs": j.get("notes"), "native_assertion_failures": j.get("failures"),
                     "native_cover_hit": desc in (j.get("covers") or [])}
    return out


def parse_vals_header(path):
    crate = harness = None
    with open(path) as f:
        first = f.readline()
    m = re.search(r"crate=(\w+) harness=(\w+)", first)
    if m:
        crate, harness = m.group(1), m.group(2)
    return crate, harness


# ----------------------------------------------------------------------------- property-level driver

def load_known(prop):
    path = os.path.join(VERIF, "KNOWN_FINDINGS.txt")
    known = []
    if os.path.exists(path):
        for line in open(path):
            line = line.strip()
            m = re.match(r"known:\s+property=(\w+)\s+harness=(\S+)\s+assertion=\"([^\"]*)\"\s*(.*)", line)
            if m and m.group(1) == prop:
                known.append({"harness": m.group(2), "assertion": m.group(3), "what": m.group(4)})
    return known


def is_known(known, r):
    """A failed harness is a known finding only if *every* failed check matches a listed entry."""
    real = [f for f in r["failed"] if "unwinding assertion" not in f["description"]]
    if not real:
        return None
    hits = []
    for f in real:
        hit = None
        for k in known:
            if re.fullmatch(k["harness"].replace("*", ".*"), r["harness"]) and f["description"].startswith(k["assertion"]):
                hit = k
                break
        if not hit:
            return None
        hits.append(hit)
    return hits


def run_property(prop, tier, harnesses, meta, jobs=None, pre=None):
    """Run all harnesses of a property; write evidence; print verdict lines; return exit code."""
    t0 = time.time()
    seed = int(os.environ.get("VERIF_SEED", "0") or 0)
    os.makedirs(WORK, exist_ok=True)
    logdir = os.path.join(WORK, "logs", prop)
    if os.path.isdir(logdir):
        shutil.rmtree(logdir, ignore_errors=True)
    os.makedirs(logdir, exist_ok=True)
    pre_info = pre() if pre else {}
    if pre_info and pre_info.get("error"):
        log(f"INCONCLUSIVE property={prop} setup failed: {pre_info['error']}")
        write_evidence(prop, tier, seed, meta, [], time.time() - t0, 0, pre_info, inconclusive=[pre_info["error"]])
        return 2
    cores = os.cpu_count() or 4
    mem_total_gb = 56
    if jobs is None:
        jobs = int(os.environ.get("VERIF_JOBS", "0") or 0) or cores
    # respect memory: sum of caps of concurrently running harnesses <= mem_total
    max_mem = max([h.mem_gb for h in harnesses] or [4])
    jobs = max(1, min(jobs, int(mem_total_gb // max_mem), len(harnesses) or 1))
    base = int(os.environ.get("VERIF_SLOT_BASE", "0") or 0)   # lets two checks run side by side with disjoint target dirs
    slots = list(range(base, base + jobs))
    slot_lock = threading.Lock()
    results = []

    def work(h):
        with slot_lock:
            s = slots.pop()
        try:
            r = run_kani(h, s, logdir)
        finally:
            with slot_lock:
                slots.append(s)
        log(f"  [{prop}] {h.name}: {r['status']}"
            + (f" ({r.get('reason')})" if r.get("reason") else "")
            + f" wall={r['wall_s']}s symex={r['symex_s']} solver={round(r['solver_s'],1)} rss={r['peak_rss_gb']}GB"
            + f" checks={r['checks_total']} covers={sum(1 for s in r['covers'].values() if s=='SATISFIED')}/{len(r['covers'])}")
        return r

    # longest first
    order = sorted(harnesses, key=lambda h: -h.timeout_s)
    with ThreadPoolExecutor(max_workers=jobs) as ex:
        results = list(ex.map(work, order))

    known = load_known(prop)
    violations, inconclusive, known_hits = [], [], []
    replays_ok = 0
    opt = {h.name for h in harnesses if h.optional}
    not_explored = []
    for r in results:
        if r["status"] == "pass":
            continue
        if r["status"] == "inconclusive":
            if r["harness"] in opt and (r.get("killed") or "out of memory" in (r.get("reason") or "")):
                not_explored.append(f"{r['harness']}: {r.get('reason')}")
                log(f"NOT-EXPLORED property={prop} {r['harness']}: {r.get('reason')} (optional harness; does not affect the verdict)")
                continue
            inconclusive.append(f"{r['harness']}: {r.get('reason')}")
            continue
        # failed: extract + replay
        path = save_vals(prop, r)
        r["replay_file"] = path
        if path:
            rep = replay_native(r["crate"], r["harness"], path)
            if not rep["reproduced"] and r.get("playback_check_name"):
                # formula slicing drops nondeterministic inputs the violated check does not depend on; when they are
                # missing from the middle of the stream the native replay runs on shifted inputs.  Ask again without slicing.
                hh = next((x for x in harnesses if x.name == r["harness"]), None)
                if hh is not None:
                    vals2, _err2 = extract_values(hh, r["slot"], r["logdir"], r["playback_check_name"], "cex_unsliced", sliced=False)
                    if vals2:
                        r["playback"] = vals2
                        path = save_vals(prop, r)
                        r["replay_file"] = path
                        rep = replay_native(r["crate"], r["harness"], path)
            r["replay"] = rep
        else:
            rep = {"reproduced": False, "profiles": {}, "error": "no concrete playback values in Kani output"}
            r["replay"] = rep
        kh = is_known(known, r)
        if rep["reproduced"]:
            replays_ok += 1
            if kh:
                known_hits.append((r, kh))
            else:
                violations.append(r)
        else:
            inconclusive.append(f"{r['harness']}: solver counterexample did not reproduce natively "
                                f"({[f['description'] for f in r['failed'][:3]]}); replay={path}")
    for r, kh in known_hits:
        for k in {k["what"]: k for k in kh}.values():
            log(f"KNOWN-FINDING: property={prop} {k['what']} (harness {r['harness']})")
    for r in violations:
        log(f"VIOLATION property={prop} replay={r['replay_file']}")
        for f in r["failed"][:5]:
            log(f"    failed check: {f['description']} @ {f['location']}")
        for prof, j in r["replay"]["profiles"].items():
            log(f"    native replay [{prof}]: failures={j.get('failures')} notes={j.get('notes')}")
    for m in inconclusive:
        log(f"INCONCLUSIVE property={prop} {m}")
    budget = 12
    for r in results:
        if r["status"] == "pass" and r.get("cover_samples") and budget > 0:
            r["witnesses"] = decode_cover_witnesses(prop, r, limit=min(3, budget))
            budget -= len(r["witnesses"])
    wall = time.time() - t0
    write_evidence(prop, tier, seed, meta, results, wall, len(violations), pre_info, inconclusive, replays_ok, known_hits, not_explored)
    if violations:
        return 1
    if inconclusive:
        return 2
    log(f"OK property={prop} tier={tier} harnesses={len(results)} wall={round(wall,1)}s")
    return 0


def write_evidence(prop, tier, seed, meta, results, wall, nviol, pre_info, inconclusive=None, replays_ok=0, known_hits=None, not_explored=None):
    passed = [r for r in results if r["status"] == "pass"]
    queries = sum(r["checks_total"] + len(r["covers"]) for r in results)
    # a non-trivial case = a (harness, reachability witness) pair whose witness the solver SATISFIED in a harness that ended
    # SUCCESSFUL (every such pair is a distinct class of inputs shown reachable under the harness's assumptions and
    # covered by its assertions); a passed harness without witnesses counts once
    nontrivial = 0
    for r in passed:
        if r["checks_total"] <= 0:
            continue
        sat = sum(1 for st in r["covers"].values() if st == "SATISFIED")
        nontrivial += sat if sat > 0 else 1
    samples = []
    for r in results[:40]:
        samples.append({"harness": r["harness"], "verdict": r["status"], "checks": r["checks_total"],
                        "covers_satisfied": sorted(d for d, s in r["covers"].items() if s == "SATISFIED")[:12],
                        "symex_s": r["symex_s"], "solver_s": round(r["solver_s"], 2), "program_steps": r["steps"],
                        "sat_variables": r["variables"], "sat_clauses": r["clauses"], "wall_s": r["wall_s"],
                        "peak_rss_gb": r["peak_rss_gb"], "reason": r.get("reason"),
                        "failed_checks": [f["description"] for f in r["failed"][:6]],
                        "witness_inputs": r.get("witnesses"),
                        "replay_file": r.get("replay_file"), "replay": r.get("replay")})
    cov = {
        "evaluations": max(queries, 0),
        "distinct_nontrivial": nontrivial,
        "rule": "evaluations = solver queries discharged in this run (every Kani/CBMC check incl. the property assertions, "
                "the unwinding assertions and the reachability witnesses, summed over harnesses); distinct_nontrivial = "
                "number of distinct (harness, reachability witness) pairs whose kani::cover! witness the solver satisfied inside a harness "
                "that ended SUCCESSFUL (a passed harness without witnesses counts once); each harness is one query family over all "
                "symbolic inputs inside the stated bounds",
        "samples": samples or [{"note": "no harness ran"}],
        "exhaustive": bool(meta.get("exhaustive_when_all_pass")) and len(passed) == len(results) and tier == meta.get("exhaustive_tier", "thorough"),
        "functions_encoded": meta.get("functions", []),
        "bounds": meta.get("bounds", {}).get(tier, meta.get("bounds", {})) if isinstance(meta.get("bounds"), dict) else meta.get("bounds"),
        "outside_claim": meta.get("outside", []),
        "models": meta.get("models", []),
        "harnesses_run": len(results),
        "harnesses_passed": len(passed),
        "cases_total_in_split": meta.get("cases_total", {}).get(tier) if isinstance(meta.get("cases_total"), dict) else meta.get("cases_total"),
        "solver": "CBMC 6.11.0 + CaDiCaL via Kani 0.68.0",
        "solver_time_s": round(sum(r["solver_s"] for r in results), 1),
        "symex_time_s": round(sum((r["symex_s"] or 0) for r in results), 1),
        "inconclusive": inconclusive or [],
        "not_explored": not_explored or [],
        "counterexamples_replayed_natively": replays_ok,
        "traces_validated_against_impl": replays_ok + sum(1 for r in results for w in (r.get("witnesses") or {}).values() if w.get("native_cover_hit")),
        "known_findings_matched": [k["what"] for _, kh in (known_hits or []) for k in kh],
        "regenerated_from": pre_info or {},
    }
    ev = {"property_id": prop, "tier": tier, "seed": seed, "level": "model_checking", "coverage": cov,
          "assumptions": meta.get("assumptions", []), "wall_s": round(wall, 1), "violations": nviol}
    os.makedirs(EVIDENCE_DIR, exist_ok=True)
    with open(os.path.join(EVIDENCE_DIR, f"{prop}.json"), "w") as f:
        json.dump(ev, f, indent=1, default=str)
