#!/usr/bin/env python3
"""Regenerates /verif/MANIFEST.json from the property table (run after adding/removing a check)."""
import json
import os
import sys

sys.path.insert(0, os.path.dirname(os.path.abspath(__file__)))
import props  # noqa: E402

VERIF = os.path.dirname(os.path.dirname(os.path.abspath(__file__)))

TEXT = props.MANIFEST_TEXT
NA = props.NOT_APPLICABLE

checks = []
for pid in sorted(props.ENABLED):
    t = TEXT[pid]
    checks.append({
        "property_id": pid,
        "quick_cmd": f"./check {pid} --tier quick",
        "thorough_cmd": f"./check {pid} --tier thorough",
        "evidence_file": f"/verif/evidence/{pid}.json",
        "replay_cmd_template": f"./check {pid} --replay {{path}}",
        "engine": t.get("engine", "kani"),
        "level_claimed": {"category": "model_checking", "text": t["level"], "design_ref": t.get("design_ref", "DESIGN.md §3")},
        "level_note": t["note"],
        "technique": t.get("technique", "bounded symbolic execution of the real Rust source (Kani 0.68 -> CBMC 6.11 -> CaDiCaL); solver verdict over all inputs inside the stated bounds; counterexamples replayed natively"),
    })
m = {
    "version": 1,
    "setup_cmd": "./setup.sh",
    "hooks": {
        "guard": "flounder_verif",
        "enable": "no source hooks are needed: harness crates include! /repo/src/*.rs and reach private items through child modules; --cfg flounder_verif is reserved and unused",
        "baseline_off_cmd": "cd /repo && cargo test --workspace --no-fail-fast --offline",
        "source_commits": [],
        "add_only": True,
    },
    "engines": [
        {"name": "kani", "path": "/verif/kani", "serves_properties": sorted(props.ENABLED),
         "kind_free_text": "three Kani harness crates (rules, magic, search) that include! the engine's real source files from /repo/src on every build; runner lib/runner.py"},
    ],
    "checks": checks,
    "not_applicable": [{"property_id": k, "reason": v} for k, v in sorted(NA.items()) if k not in props.ENABLED],
    "notes": "Exit codes of ./check: 0 held on everything explored; 1 VIOLATION (natively replayed counterexample); 2 INCONCLUSIVE (timeout, memory cap, vacuous harness, build failure or a solver counterexample that did not reproduce natively) - never reported as success.",
}
json.dump(m, open(os.path.join(VERIF, "MANIFEST.json"), "w"), indent=1)
print("MANIFEST.json written with", len(checks), "checks;", len(m["not_applicable"]), "not applicable")
