#!/bin/sh
# Offline set-up after a fresh restore: nothing to download. Warm the native harness binaries and
# generated files so the first check does not pay for them; every check regenerates them anyway.
set -e
cd "$(dirname "$0")"
export CARGO_NET_OFFLINE=true
mkdir -p .work evidence replays
python3 - <<'PY'
import sys
sys.path.insert(0, "lib")
import props
for f in (props.pre_rules, props.pre_magic, props.pre_search):
    r = f()
    print(f.__name__, r)
    if r.get("error"):
        sys.exit(1)
PY
echo "setup ok"
