#!/bin/sh
# dev helper: ./dev-kani.sh <crate> <harness-path> [extra cargo-kani args]  -> log in .work/dev/<harness>.log
crate=$1; h=$2; shift 2
name=$(echo "$h" | sed 's/.*:://')
mkdir -p /verif/.work/dev
cd /verif/kani/$crate && touch src/main.rs && CARGO_NET_OFFLINE=true timeout ${KTIMEOUT:-1800} cargo kani --harness "$h" --exact --target-dir /verif/.work/devtd/$crate-$name "$@" > /verif/.work/dev/$name.log 2>&1
grep -E "VERIFICATION|Runtime Symex|Runtime Solver|variables|FAILURE|UNSATISFIABLE|UNREACHABLE|^error|Verification Time" /verif/.work/dev/$name.log | sort | uniq -c | sort -rn | head -30
