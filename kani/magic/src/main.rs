// C10 harness crate: real magic.rs / lookup.rs / bitboard.rs from /repo/src; table contents
// are dumped from a native run of the real LookupTable::init() of the current tree.
#![recursion_limit = "1024"]
#![allow(dead_code, unused_imports, unused_variables, unused_mut, unused_macros)]

#[macro_use]
pub mod sym { include!("../../common/sym.rs"); }
pub mod randf { include!("../../common/randf.rs"); }

macro_rules! real_mod {
    ($name:ident, $file:literal) => { pub mod $name { include!(concat!(env!("FLOUNDER_SRC"), "/", $file)); } };
}
real_mod!(bitboard, "bitboard.rs");
real_mod!(moves, "moves.rs");
real_mod!(pieces, "pieces.rs");
real_mod!(square, "square.rs");
pub mod lookup { include!(concat!(env!("FLOUNDER_SRC"), "/lookup.rs")); }
pub mod magic {
    use crate::randf as rand;
    include!(concat!(env!("FLOUNDER_SRC"), "/magic.rs"));
    pub mod vh {
        use super::*;
        pub fn build(rm: [u64; 64], bm: [u64; 64], rg: [u64; 64], bg: [u64; 64], ra: Vec<Vec<u64>>, ba: Vec<Vec<u64>>) -> Magic {
            Magic { rook_attack_masks: rm, bishop_attack_masks: bm, rook_attacks: ra, bishop_attacks: ba, rook_magics: rg, bishop_magics: bg }
        }
        pub fn fields(m: &Magic) -> ([u64; 64], [u64; 64], [u64; 64], [u64; 64], &Vec<Vec<u64>>, &Vec<Vec<u64>>) {
            (m.rook_attack_masks, m.bishop_attack_masks, m.rook_magics, m.bishop_magics, &m.rook_attacks, &m.bishop_attacks)
        }
    }
}
pub mod oracle;
pub mod h_tables;
pub mod h_sliders;
pub mod gen {
    #[cfg(kani)] pub mod tables_common;
    pub mod h_squares;
    #[cfg(not(kani))] pub mod registry;
}
#[cfg(not(kani))]
mod native;
#[cfg(not(kani))]
fn main() { native::main(); }
#[cfg(kani)]
fn main() {}
