// C10: knight / king tables, between tables, queen dispatch.
use crate::lookup::LookupTable;
use crate::magic::Magic;
use crate::oracle::*;
use crate::pieces::Piece;
use crate::sym;

#[cfg(kani)]
pub fn empty_magic() -> Magic { crate::magic::vh::build([0; 64], [0; 64], [0; 64], [0; 64], Vec::new(), Vec::new()) }

#[cfg(kani)]
pub fn small_lookup() -> LookupTable {
    use crate::gen::tables_common as t;
    LookupTable { knight_lookup: t::KNIGHT, king_lookup: t::KING, magic_table: empty_magic(),
        inclusive_between_lookup: t::BETWEEN_INC, exclusive_between_lookup: t::BETWEEN_EXC }
}
#[cfg(not(kani))]
pub fn small_lookup() -> LookupTable { LookupTable::init() }

fn piece_of(x: u8) -> Piece { match x { 0 => Piece::Pawn, 1 => Piece::Knight, 2 => Piece::Bishop, 3 => Piece::Rook, 4 => Piece::Queen, _ => Piece::King } }

/// Knight and king attack sets equal the geometric step patterns for every square;
/// non_sliding_moves returns nothing for other piece types.
#[cfg_attr(kani, kani::proof)]
#[cfg_attr(kani, kani::unwind(10))]
pub fn c10_knight_king() {
    let l = small_lookup();
    let sq = sym::u8(); sym::assume(sq < 64);
    vnote!("square", "{}", sq);
    vassert!(l.non_sliding_moves(sq, Piece::Knight) == steps(sq, &KNIGHT_STEPS), "C10: knight attack set differs from the geometric pattern");
    vassert!(l.non_sliding_moves(sq, Piece::King) == steps(sq, &KING_STEPS), "C10: king attack set differs from the geometric pattern");
    vcover!(sq == 0, "corner a1");
    vcover!(sq == 63, "corner h8");
    vcover!(sq == 36, "centre e5");
    core::mem::forget(l);
}

/// 'Segment between' and 'whole line through' are exact for all ordered pairs of distinct squares.
#[cfg_attr(kani, kani::proof)]
#[cfg_attr(kani, kani::unwind(17))]
pub fn c10_between() {
    let l = small_lookup();
    let from = sym::u8(); let to = sym::u8();
    sym::assume(from < 64 && to < 64 && from != to);
    vnote!("pair", "{} {}", from, to);
    let (seg, line) = lines(from, to);
    vassert!(l.between(from, to, true) == seg, "C10: inclusive between(from,to) differs from the segment");
    vassert!(l.between(from, to, false) == line, "C10: exclusive between(from,to) differs from the whole line");
    vcover!(seg == 0, "non-aligned pair");
    vcover!(seg.count_ones() == 8 && line == 0x8040201008040201, "long diagonal");
    vcover!(seg.count_ones() == 2 && line.count_ones() == 8, "adjacent on a file or rank");
    core::mem::forget(l);
}

pub fn stub_r(_m: &Magic, sq: u8, occ: u64) -> u64 { 0x00ff_0000_0000_1234 ^ occ.rotate_left(sq as u32 & 7) }
pub fn stub_b(_m: &Magic, sq: u8, occ: u64) -> u64 { 0x1100_0000_00ff_4321 ^ occ.rotate_right(sq as u32 & 3) }

/// sliding_moves dispatch: Rook -> rook lookup, Bishop -> bishop lookup, Queen -> union, others -> empty.
/// (The two lookups are replaced by distinguishable functions of (sq, occ); natively the real tables are used
/// and the same identities are asserted.)
#[cfg_attr(kani, kani::proof)]
#[cfg_attr(kani, kani::unwind(10))]
#[cfg_attr(kani, kani::stub(crate::magic::Magic::get_rook_attacks, stub_r))]
#[cfg_attr(kani, kani::stub(crate::magic::Magic::get_bishop_attacks, stub_b))]
pub fn c10_slider_dispatch() {
    let l = small_lookup();
    let sq = sym::u8(); sym::assume(sq < 64);
    let occ = sym::u64();
    vnote!("square/occ", "{} {:#x}", sq, occ);
    let (r, b) = if sym::native() { (ray_walk(sq, occ, false), ray_walk(sq, occ, true)) } else { (stub_r(&l.magic_table, sq, occ), stub_b(&l.magic_table, sq, occ)) };
    vassert!(l.sliding_moves(sq, occ, Piece::Rook) == r, "C10: sliding_moves(Rook) is not the rook lookup");
    vassert!(l.sliding_moves(sq, occ, Piece::Bishop) == b, "C10: sliding_moves(Bishop) is not the bishop lookup");
    vassert!(l.sliding_moves(sq, occ, Piece::Queen) == (r | b), "C10: sliding_moves(Queen) is not rook|bishop");
    vcover!(r != b, "lookups distinguishable");
    core::mem::forget(l);
}
