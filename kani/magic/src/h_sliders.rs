// C10: per-square magic lookup == first-blocker ray walk, for every 64-bit occupancy.
use crate::magic::Magic;
use crate::oracle::ray_walk;
use crate::sym;

/// Magic with the real dumped masks/magics and the real dumped attack table of ONE square.
#[cfg(kani)]
pub fn magic_with(sq: usize, rook: Option<&[u64]>, bishop: Option<&[u64]>) -> Magic {
    use crate::gen::tables_common as t;
    let mut ra: Vec<Vec<u64>> = Vec::with_capacity(64);
    let mut ba: Vec<Vec<u64>> = Vec::with_capacity(64);
    let mut i = 0;
    while i < 64 {
        ra.push(if i == sq { match rook { Some(x) => x.to_vec(), None => Vec::new() } } else { Vec::new() });
        ba.push(if i == sq { match bishop { Some(x) => x.to_vec(), None => Vec::new() } } else { Vec::new() });
        i += 1;
    }
    crate::magic::vh::build(t::ROOK_MASKS, t::BISHOP_MASKS, t::ROOK_MAGICS, t::BISHOP_MAGICS, ra, ba)
}
#[cfg(not(kani))]
pub fn real_magic() -> Magic { Magic::new() }

pub fn check_rook(sq: u8, m: &Magic) {
    let occ = sym::u64();
    vnote!("square/occupancy", "rook on {} occ={:#018x}", sq, occ);
    let got = m.get_rook_attacks(sq, occ);
    vassert!(got == ray_walk(sq, occ, false), "C10: rook attack set differs from the first-blocker ray walk");
    vcover!(occ == 0, "empty board");
    vcover!(got.count_ones() == 4 || got.count_ones() == 3 || got.count_ones() == 2, "fully blocked rook");
}
pub fn check_bishop(sq: u8, m: &Magic) {
    let occ = sym::u64();
    vnote!("square/occupancy", "bishop on {} occ={:#018x}", sq, occ);
    let got = m.get_bishop_attacks(sq, occ);
    vassert!(got == ray_walk(sq, occ, true), "C10: bishop attack set differs from the first-blocker ray walk");
    vcover!(occ == 0, "empty board");
    vcover!(occ == u64::MAX, "full board");
}
