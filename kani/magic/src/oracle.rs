// Geometric oracle for attack sets and lines; shares nothing with the engine.
pub fn ray_walk(sq: u8, occ: u64, diag: bool) -> u64 {
    let r0 = (sq / 8) as i8; let f0 = (sq % 8) as i8;
    let mut a = 0u64;
    let dirs: [(i8, i8); 4] = if diag { [(1, 1), (-1, 1), (1, -1), (-1, -1)] } else { [(1, 0), (-1, 0), (0, 1), (0, -1)] };
    let mut d = 0;
    while d < 4 {
        let (dr, df) = dirs[d];
        let mut open = true;
        let mut k: i8 = 1;
        while k < 8 {
            let r = r0 + dr * k; let f = f0 + df * k;
            if open && r >= 0 && r < 8 && f >= 0 && f < 8 {
                let b = 1u64 << (r * 8 + f);
                a |= b;
                if occ & b != 0 { open = false; }
            } else { open = false; }
            k += 1;
        }
        d += 1;
    }
    a
}
pub fn steps(sq: u8, st: &[(i8, i8); 8]) -> u64 {
    let r0 = (sq / 8) as i8; let f0 = (sq % 8) as i8;
    let mut a = 0u64; let mut i = 0;
    while i < 8 {
        let r = r0 + st[i].0; let f = f0 + st[i].1;
        if r >= 0 && r < 8 && f >= 0 && f < 8 { a |= 1u64 << (r * 8 + f); }
        i += 1;
    }
    a
}
pub const KNIGHT_STEPS: [(i8, i8); 8] = [(2, 1), (2, -1), (-2, 1), (-2, -1), (1, 2), (1, -2), (-1, 2), (-1, -2)];
pub const KING_STEPS: [(i8, i8); 8] = [(1, 0), (-1, 0), (0, 1), (0, -1), (1, 1), (1, -1), (-1, 1), (-1, -1)];

/// (segment from..=to, whole line through both) for distinct squares; (0,0) if not aligned.
pub fn lines(from: u8, to: u8) -> (u64, u64) {
    let r0 = (from / 8) as i8; let f0 = (from % 8) as i8;
    let r1 = (to / 8) as i8; let f1 = (to % 8) as i8;
    let dr = r1 - r0; let df = f1 - f0;
    let aligned = dr == 0 || df == 0 || dr == df || dr == -df;
    if !aligned || (dr == 0 && df == 0) { return (0, 0); }
    let sr = if dr > 0 { 1 } else if dr < 0 { -1 } else { 0 };
    let sf = if df > 0 { 1 } else if df < 0 { -1 } else { 0 };
    let n = if dr != 0 { if dr > 0 { dr } else { -dr } } else if df > 0 { df } else { -df };
    let mut seg = 0u64; let mut line = 0u64;
    let mut k: i8 = -7;
    while k <= 7 {
        let r = r0 + sr * k; let f = f0 + sf * k;
        if r >= 0 && r < 8 && f >= 0 && f < 8 {
            let b = 1u64 << (r * 8 + f);
            line |= b;
            if k >= 0 && k <= n { seg |= b; }
        }
        k += 1;
    }
    (seg, line)
}
