// C15 — TranspositionTable::{new, store, retrieve} over the map model.
use crate::moves::{Move, MoveType};
use crate::pieces::Piece;
use crate::shim::CAP;
use crate::sym;
use crate::transposition::{Bounds, Entry, TranspositionTable};

fn any_move_opt() -> Option<Move> {
    if sym::bool() {
        let f = sym::u8(); let t = sym::u8(); sym::assume(f < 64 && t < 64);
        let p = sym::u8(); sym::assume(p < 6);
        let mt = sym::u8(); sym::assume(mt < 5);
        let piece = match p { 0 => Piece::Pawn, 1 => Piece::Knight, 2 => Piece::Bishop, 3 => Piece::Rook, 4 => Piece::Queen, _ => Piece::King };
        let ty = match mt { 0 => MoveType::Quiet, 1 => MoveType::Capture, 2 => MoveType::EnPassant, 3 => MoveType::Castle, _ => MoveType::Promotion };
        Some(Move::new(f, t, piece, ty))
    } else { None }
}
fn any_bounds() -> Bounds { let b = sym::u8(); sym::assume(b < 3); match b { 0 => Bounds::Exact, 1 => Bounds::Lower, _ => Bounds::Upper } }
fn any_entry(key: u64) -> Entry { Entry { hash_key: key, eval: sym::i32(), best_move: any_move_opt(), depth: sym::u8(), bounds: any_bounds() } }

/// representation invariant of the table: live keys unique, every live entry records its own key
fn invariant(t: &TranspositionTable) -> bool {
    let m = crate::transposition::vh::map(t);
    let mut ok = true;
    let mut i = 0;
    while i < CAP {
        if m.used[i] {
            match (m.keys[i], m.vals[i]) { (Some(k), Some(e)) => { if e.hash_key != k { ok = false; } } _ => { ok = false; } }
            let mut j = i + 1;
            while j < CAP { if m.used[j] && m.keys[j] == m.keys[i] { ok = false; } j += 1; }
        }
        i += 1;
    }
    ok
}
fn arbitrary_table() -> TranspositionTable {
    let mut t = TranspositionTable::new();
    let m = crate::transposition::vh::map_mut(&mut t);
    let mut i = 0;
    while i < CAP {
        m.used[i] = sym::bool();
        let k = sym::u64();
        m.keys[i] = Some(k);
        m.vals[i] = Some(any_entry(k));
        i += 1;
    }
    t
}

/// One store from an ARBITRARY table state satisfying the invariant (inductive step: covers
/// every sequence of stores/retrieves of any length), then a retrieve of an arbitrary key.
#[cfg_attr(kani, kani::proof)]
#[cfg_attr(kani, kani::unwind(10))]
pub fn c15_store_step() {
    let mut t = arbitrary_table();
    sym::assume(invariant(&t));
    let q = sym::u64();
    let before: Option<Entry> = t.retrieve(q).copied();
    let k = sym::u64();
    let has_k = t.retrieve(k).is_some();
    sym::assume(has_k || crate::transposition::vh::map(&t).len() < CAP); // capacity of the model, not of the engine
    let (eval, mv, d, b) = (sym::i32(), any_move_opt(), sym::u8(), any_bounds());
    t.store(k, eval, mv, d, b);
    let after: Option<Entry> = t.retrieve(q).copied();
    let fresh = Entry { hash_key: k, eval, best_move: mv, depth: d, bounds: b };
    if let Some(e) = after { vassert!(e.hash_key == q, "C15: lookup returned data stored under a different key"); }
    if q != k {
        vassert!(after == before, "C15: a store under one key changed what another key returns");
    } else {
        match before {
            None => vassert!(after == Some(fresh), "C15: first store for a key is not returned by the next lookup"),
            Some(p) => {
                if p.depth <= d { vassert!(after == Some(fresh), "C15: an equal-or-deeper result did not replace the stored one"); }
                else { vassert!(after == Some(p), "C15: a shallower result replaced a deeper one"); }
            }
        }
    }
    vassert!(invariant(&t), "C15: table invariant broken by store");
    vcover!(q == k && before.is_some() && before.unwrap().depth == d, "equal depth replaces");

    vcover!(q == k && before.is_some() && before.unwrap().depth > d, "deeper entry kept");
    vcover!(q != k && before.is_some(), "other key untouched");
    core::mem::forget(t);
}

/// Three stores into a fresh table (the real `new()`), keys possibly equal, then a lookup:
/// the answer is the depth-preferred fold of the stores with that key, nothing for other keys.
#[cfg_attr(kani, kani::proof)]
#[cfg_attr(kani, kani::unwind(10))]
pub fn c15_sequence_from_new() {
    let mut t = TranspositionTable::new();
    let q = sym::u64();
    vassert!(t.retrieve(q).is_none(), "C15: a fresh table returns data");
    let mut model: Option<Entry> = None;
    let mut i = 0;
    while i < 3 {
        let k = sym::u64();
        let (eval, mv, d, b) = (sym::i32(), any_move_opt(), sym::u8(), any_bounds());
        t.store(k, eval, mv, d, b);
        if k == q {
            let fresh = Entry { hash_key: k, eval, best_move: mv, depth: d, bounds: b };
            model = match model { None => Some(fresh), Some(p) => if p.depth <= d { Some(fresh) } else { Some(p) } };
        }
        i += 1;
    }
    let got = t.retrieve(q).copied();
    vassert!(got == model, "C15: lookup after a store sequence differs from the depth-preferred reference");
    vcover!(model.is_some() && got.unwrap().depth == 0, "stored at depth 0");
    core::mem::forget(t);
}

// ------------------------------------------------------------------------------------------ C05 window lemma
/// probe_transposition_table / determine_bound obey the alpha-beta contract for every window, score,
/// entry and depth: an entry that is a TRUE statement about the node's value V (Exact: =V, Lower: <=V,
/// Upper: >=V, searched at least as deep as now required) never yields an answer that contradicts V
/// inside the window; a shallower entry is never used; determine_bound classifies a fail-soft score.
#[cfg_attr(kani, kani::proof)]
#[cfg_attr(kani, kani::unwind(10))]
pub fn c05_window_lemma() {
    use crate::absgame::*;
    crate::hcommon::setup_game(1, 0);
    let mut s = crate::search::Searcher::new();
    let root = crate::absgame::board::Board::root();
    let v = sym::i32();               // the node's true value at the required depth
    let (alpha, beta) = (sym::i32(), sym::i32());
    sym::assume(alpha < beta && alpha >= crate::search::vh::NEG_INF && beta <= crate::search::vh::INF);
    let eval = sym::i32(); let b = any_bounds(); let de = sym::u8(); let depth = sym::u8();
    let mv = any_move_opt();
    let truthful = match b { Bounds::Exact => eval == v, Bounds::Lower => eval <= v, Bounds::Upper => eval >= v };
    sym::assume(truthful);
    crate::search::vh::tt_mut(&mut s).store(g().hash[0], eval, mv, de, b);
    match crate::search::vh::probe(&s, &root, depth, alpha, beta) {
        Some((score, m)) => {
            vassert!(de >= depth, "C05: a cached result from a shallower search was used");
            vassert!(m == mv, "C05: cache hit returns a different move than was stored");
            if v > alpha && v < beta { vassert!(score == v, "C05: cache hit inside the window returns a score different from the true value"); }
            if v <= alpha { vassert!(score <= alpha, "C05: cache hit reports a score above alpha for a node whose value is at most alpha"); }
            if v >= beta { vassert!(score >= beta, "C05: cache hit reports a score below beta for a node whose value is at least beta"); }
        }
        None => {
            // an exact, deep-enough entry must be used (otherwise caching would be pointless but still sound): not required by the property
        }
    }
    // determine_bound: classification of a fail-soft score against the original window
    let sc = sym::i32(); let a0 = sym::i32(); let bt = sym::i32();
    sym::assume(a0 < bt);
    let got = crate::search::vh::bound_of(&s, sc, a0, bt);
    let want = if sc <= a0 { Bounds::Upper } else if sc >= bt { Bounds::Lower } else { Bounds::Exact };
    vassert!(got == want, "C05: determine_bound misclassifies a score against the search window");
    vcover!(b == Bounds::Lower && de >= depth && eval >= beta, "lower bound above beta cuts");
    vcover!(b == Bounds::Upper && de >= depth && eval > alpha && eval < beta, "upper bound inside the window does not cut");
    core::mem::forget(s);
}
