// C06 (interrupted search leaves nothing behind), C07 (stops promptly), C08 (mate in one),
// C17 search part (which generator quiescence asks), C09-R2 (repetition inside the search).
use crate::absgame::board::Board;
use crate::absgame::*;
use crate::h_search::search_harness;
use crate::hcommon::*;
use crate::moves::Move;
use crate::search::Searcher;
use crate::sym;
use std::time::Duration;

// ------------------------------------------------------------------------------------------ C08
fn is_mated(n: usize, lvl: usize) -> bool { !has_moves_at(n, lvl) && g().in_check[n] }
fn allows_mate_in_one(n: usize, lvl: usize) -> bool {
    // node n (opponent to move) has a move to a node where the side to move is mated
    let mut r = false;
    macro_rules! kid { ($j:expr) => { if $j < br() && has_moves_at(n, lvl) && ($j as u8) < g().nmoves[n] && is_mated(child(n, $j), lvl + 1) { r = true; } }; }
    kid!(0); kid!(1); kid!(2);
    r
}
/// (i) a root move that mates is played at every depth >= 1; (ii) at depth >= 2 a move that allows
/// mate in one is not chosen when another move does not.
fn c08_shape(b: usize, l: usize, depth: u8) {
    setup_game(b, l);
    let mut s = Searcher::new();
    let (_score, mv) = s.find_best_move(&Board::root(), depth, None);
    let mut can_mate = false; let mut some_safe = false; let mut some_unsafe = false;
    macro_rules! kid { ($j:expr) => { if $j < br() && has_moves_at(0, 0) && ($j as u8) < g().nmoves[0] {
        if is_mated(child(0, $j), 1) { can_mate = true; }
        if allows_mate_in_one(child(0, $j), 1) { some_unsafe = true; } else { some_safe = true; }
    } }; }
    kid!(0); kid!(1); kid!(2);
    if can_mate {
        vassert!(mv.is_some(), "C08: no move returned although a mating move exists");
        if let Some(m) = mv { vassert!((m.to as usize) < br() && is_mated(child(0, m.to as usize), 1), "C08: a mate in one exists but the chosen move does not mate"); }
    }
    if depth >= 2 && some_safe && !can_mate {
        if let Some(m) = mv { vassert!((m.to as usize) >= br() || !allows_mate_in_one(child(0, m.to as usize), 1), "C08: chosen move allows mate in one although another move does not"); }
    }
    vcover!(can_mate, "mate in one available");
    if depth >= 2 { vcover!(some_safe && some_unsafe && !can_mate, "mix of moves that do and do not allow mate in one"); }
    core::mem::forget(s);
}
search_harness!(c08_d1_b2, 4, { c08_shape(2, 2, 1); });
search_harness!(c08_d2_b2, 4, { c08_shape(2, 2, 2); });
search_harness!(c08_d1_b3, 5, { c08_shape(3, 1, 1); });
search_harness!(c08_d2_b2_q1, 4, { c08_shape(2, 3, 2); });
search_harness!(c08_d3_b2, 5, { c08_shape(2, 3, 3); });

// ------------------------------------------------------------------------------------------ C06 / C07
/// One search with the deadline after poll `stop_at`, then a complete search on the same engine.
fn c06_case(b: usize, l: usize, depth: u8, stop_at: u32) {
    setup_game(b, l);
    let mut s = Searcher::new();
    let root = Board::root();
    let rep0 = crate::search::vh::rep_len(&s);
    unsafe { CLK.stop_at = stop_at; }
    let _ = s.find_best_move(&root, depth, Some(Duration::from_millis(1)));
    let stopped = unsafe { CLK.stopped };
    let polls = unsafe { CLK.polls };
    // C07: once the clock said stop, no further node is entered; between two polls at most two nodes
    vassert!(unsafe { CLK.nodes_after_stop } == 0, "C07: search entered further nodes after the deadline had been observed");
    vassert!(unsafe { CLK.max_nodes_between_polls } <= 2, "C07: more than two nodes entered between two consecutive clock polls");
    vassert!(crate::search::vh::rep_len(&s) == rep0, "C06: game-history stack not restored after an interrupted search");
    unsafe { CLK.stop_at = u32::MAX; }
    crate::out::reset();
    let (score, mv) = s.find_best_move(&root, depth, None);
    check_result(score, mv, depth);
    vassert!(crate::search::vh::rep_len(&s) == rep0, "C06: game-history stack not restored after a completed search");
    vcover!(stopped, "first search was interrupted");
    vcover!(stopped && has_moves_at(0, 0) && g().nmoves[1] > 0, "interrupted with a non-trivial tree");
    let _ = polls;
    core::mem::forget(s);
}
/// C07 alone: one timed search with the deadline after poll `stop_at` (half the cost of the two-search C06 case).
fn c07_case(b: usize, l: usize, depth: u8, stop_at: u32) {
    setup_game(b, l);
    let mut s = Searcher::new();
    unsafe { CLK.stop_at = stop_at; }
    let _ = s.find_best_move(&Board::root(), depth, Some(Duration::from_millis(1)));
    let stopped = unsafe { CLK.stopped };
    vassert!(unsafe { CLK.nodes_after_stop } == 0, "C07: search entered further nodes after the deadline had been observed");
    vassert!(unsafe { CLK.max_nodes_between_polls } <= 2, "C07: more than two nodes entered between two consecutive clock polls");
    vcover!(stopped, "search was interrupted");
    core::mem::forget(s);
}
macro_rules! c07_harness { ($name:ident, $unw:literal, $b:literal, $l:literal, $d:literal, $stop:literal) => {
    search_harness!($name, $unw, { c07_case($b, $l, $d, $stop); });
}; }
include!("gen/h_c07_cases.rs");
// generated: one harness per interruption point (gen/h_c06_cases.rs)
macro_rules! c06_harness { ($name:ident, $unw:literal, $b:literal, $l:literal, $d:literal, $stop:literal) => {
    search_harness!($name, $unw, { c06_case($b, $l, $d, $stop); });
}; }
include!("gen/h_c06_cases.rs");

/// How many polls does a complete timed search of the shape make at most?  (cover-only probe used to
/// size the case split: the witnesses show poll counts that are reachable)
fn c07_polls(b: usize, l: usize, depth: u8) {
    setup_game(b, l);
    let mut s = Searcher::new();
    unsafe { CLK.stop_at = u32::MAX - 1; }
    let _ = s.find_best_move(&Board::root(), depth, Some(Duration::from_millis(1)));
    let p = unsafe { CLK.polls };
    vassert!(unsafe { CLK.max_nodes_between_polls } <= 2, "C07: more than two nodes entered between two consecutive clock polls");
    vassert!(p <= max_polls(b, l, depth), "C07: more clock polls than the case split over interruption points covers");
    vcover!(p >= 4, "a search that polls at least four times");
    core::mem::forget(s);
}
/// upper bound on polls of a complete search: per iteration 2 in find_best_move, one per move-loop round of every
/// node that has a move loop (negamax or quiescence), and one after the move loop of every negamax node (the
/// "do not cache when the clock says stop" guard) - each node of the tree is visited at most once per iteration
pub fn max_polls(b: usize, l: usize, depth: u8) -> u32 {
    let mut internal = 0u32; let mut w = 1u32; let mut i = 0;
    while i < l { internal += w; w *= b as u32; i += 1; }
    (depth as u32) * (2 + internal * (b as u32 + 1))
}
search_harness!(c07_polls_d1_b2_q1, 4, { c07_polls(2, 2, 1); });
search_harness!(c07_polls_d2_b2_q0, 4, { c07_polls(2, 2, 2); });

// ------------------------------------------------------------------------------------------ C17 (search part)
/// search_until_quiet asks for the full move list iff the side to move is in check, and for the
/// quiescence list otherwise (the contents of the lists are the rules-level part of C17).
search_harness!(c17_quiescence_generator_choice, 4, {
    setup_game(2, 1);
    let mut s = Searcher::new();
    let root = Board::root();
    unsafe { CLK.first_gen_kind = 0; }
    let a = sym::i32(); let b = sym::i32();
    sym::assume(a >= crate::search::vh::NEG_INF && b <= crate::search::vh::INF && a < b);
    let _ = crate::search::vh::quiesce(&mut s, &root, a, b);
    let kind = unsafe { CLK.first_gen_kind };
    if g().in_check[0] { vassert!(kind == 1, "C17: in check, quiescence did not examine every legal move"); }
    else { vassert!(kind == 2, "C17: not in check, quiescence did not restrict itself to captures, promotions and checks"); }
    vassert!(unsafe { CLK.first_gen_node } == 0, "C17: quiescence generated moves for a different position");
    vcover!(g().in_check[0], "in check");
    vcover!(!g().in_check[0], "not in check");
    core::mem::forget(s);
});

// ------------------------------------------------------------------------------------------ C09-R2
/// Inside the search: a non-root node whose hash already occurs twice in the game history (root
/// included) is scored 0 whatever the table holds; with fewer occurrences it is searched normally.
search_harness!(c09_repetition_in_search, 4, {
    setup_game(2, 2);
    let mut s = Searcher::new();
    // game history: two earlier positions (with the root pushed by the search: three entries, the unwinding bound of is_repetition), each equal to one of the tree's nodes or foreign (a fixed
    // number of pushes: a symbolic number of Vec pushes does not get through CBMC; foreign entries are fillers)
    let mut occ = [0u8; 7];
    macro_rules! hist { ($i:expr) => { { let n = sym::u8(); sym::assume(n <= 7);
        let h = if n < 7 { g().hash[n as usize] } else { let x = sym::u64(); sym::assume(x & 63 == 63); x };
        crate::search::vh::rep_mut(&mut s).push(h); if n < 7 { occ[n as usize] += 1; } } }; }
    hist!(0); hist!(1);
    let k = 2u8;
    let root = Board::root();
    let (score, mv) = s.find_best_move(&root, 1, None);
    // reference: children that already occurred twice are draws; others have their quiescence value
    if has_moves_at(0, 0) {
        let mut best = i64::MIN;
        macro_rules! kid { ($j:expr) => { if ($j as u8) < g().nmoves[0] { let c = child(0, $j);
            let v = if occ[c] >= 2 { 0 } else { -q_engine(c, 1) }; if v > best { best = v; } } }; }
        kid!(0); kid!(1);
        vassert!(norm(score as i64) == norm(best), "C09: a move repeating a position for the third time is not scored as a draw (or a fresh position is)");
    }
    vassert!(crate::search::vh::rep_len(&s) == k as usize, "C09: search changed the recorded game history");
    vcover!(has_moves_at(0, 0) && occ[1] == 2 && qvalue_at(1, 1) != 0, "child seen twice before, non-zero static value");
    vcover!(has_moves_at(0, 0) && occ[1] == 1, "child seen once before");
    let _ = mv;
    core::mem::forget(s);
});
