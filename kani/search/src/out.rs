// Captured standard output (println!/print_info are routed here instead of the process's stdout).
use crate::moves::Move;
pub const K_OTHER: u8 = 0; pub const K_BESTMOVE: u8 = 1; pub const K_BESTMOVE_NONE: u8 = 2; pub const K_UCIOK: u8 = 3;
pub const K_ID_NAME: u8 = 4; pub const K_ID_AUTHOR: u8 = 5; pub const K_READYOK: u8 = 6; pub const K_INFO: u8 = 7;
pub const fn str_eq(a: &str, b: &str) -> bool {
    let a = a.as_bytes(); let b = b.as_bytes();
    if a.len() != b.len() { return false; }
    let mut i = 0; while i < a.len() { if a[i] != b[i] { return false; } i += 1; } true
}
pub const fn starts(a: &str, p: &str) -> bool {
    let a = a.as_bytes(); let p = p.as_bytes();
    if a.len() < p.len() { return false; }
    let mut i = 0; while i < p.len() { if a[i] != p[i] { return false; } i += 1; } true
}
pub const fn kind_of(f: &str) -> u8 {
    if str_eq(f, "bestmove 0000") { K_BESTMOVE_NONE } else if starts(f, "bestmove") { K_BESTMOVE } else if str_eq(f, "uciok") { K_UCIOK }
    else if starts(f, "id name") { K_ID_NAME } else if starts(f, "id author") { K_ID_AUTHOR } else if str_eq(f, "readyok") { K_READYOK } else { K_OTHER }
}
#[derive(Copy, Clone, PartialEq, Eq)]
pub struct Line { pub kind: u8, pub mv: Option<Move>, pub depth: u8, pub score: i32, pub nodes: u64 }
pub const MAXLINES: usize = 12;
pub struct OutState { pub magic: u64, pub nlines: usize, pub overflow: bool, pub last_rendered: Option<Move> }
/// (one struct with a sentinel field: see the note on static/constant aliasing in envmodel.rs)
pub static mut OUT: OutState = OutState { magic: 0x5EED_0007_0BAD_F00D, nlines: 0, overflow: false, last_rendered: None };
pub static mut LINES: [Line; MAXLINES] = [Line { kind: 0, mv: None, depth: 0, score: 0, nodes: 0 }; MAXLINES];
/// the move most recently rendered by Move::to_algebraic (set by the to_algebraic stub under Kani;
/// natively recovered by parsing the rendered text back against the abstract root's moves)
pub fn reset() { unsafe { OUT.nlines = 0; OUT.overflow = false; OUT.last_rendered = None; } }
pub fn push(l: Line) { unsafe { if OUT.nlines < MAXLINES { LINES[OUT.nlines] = l; OUT.nlines += 1; } else { OUT.overflow = true; } } }
pub fn n() -> usize { unsafe { OUT.nlines } }
pub fn line(i: usize) -> Line { unsafe { LINES[i] } }
pub fn info(d: u8, s: i32, nodes: u64, m: Option<Move>) { push(Line { kind: K_INFO, mv: m, depth: d, score: s, nodes }); }
pub fn text(kind: u8, has_args: bool) {
    let mv = if kind == K_BESTMOVE && has_args { unsafe { OUT.last_rendered } } else { None };
    push(Line { kind, mv, depth: 0, score: 0, nodes: 0 });
}
pub fn count(kind: u8) -> usize {
    let mut c = 0;
    macro_rules! one { ($i:expr) => { if $i < n() && line($i).kind == kind { c += 1; } }; }
    one!(0); one!(1); one!(2); one!(3); one!(4); one!(5); one!(6); one!(7); one!(8); one!(9); one!(10); one!(11);
    c
}
