use crate::sym;
use std::fmt::Write as _;
fn parse_vals(path: &str) -> Vec<Vec<u8>> {
    let txt = std::fs::read_to_string(path).expect("vals file");
    txt.lines().filter(|l| !l.trim().is_empty() && !l.starts_with('#'))
        .map(|l| l.split_whitespace().map(|t| t.parse::<u8>().expect("byte")).collect()).collect()
}
fn json_str(s: &str) -> String {
    let mut o = String::from("\"");
    for c in s.chars() { match c { '"' => o.push_str("\\\""), '\\' => o.push_str("\\\\"), '\n' => o.push_str("\\n"), c if (c as u32) < 32 => { let _ = write!(o, "\\u{:04x}", c as u32); } c => o.push(c) } }
    o.push('"'); o
}
fn replay(name: &str, path: &str) -> i32 {
    let f = match crate::gen::registry::lookup(name) { Some(f) => f, None => { std::println!("{{\"error\":\"unknown harness\"}}"); return 3; } };
    sym::load(parse_vals(path));
    std::panic::set_hook(Box::new(|_| {}));
    let r = std::panic::catch_unwind(f);
    let (violated, bad_stream, mut failures, covers, notes) = sym::result();
    if let Err(e) = r {
        if e.downcast_ref::<crate::envmodel::EndOfPath>().is_none() {
            let msg = if let Some(s) = e.downcast_ref::<&str>() { s.to_string() } else if let Some(s) = e.downcast_ref::<String>() { s.clone() } else { "panic".to_string() };
            if !violated { failures.push(format!("panic: {}", msg)); }
        }
    }
    let mut out = String::new();
    write!(out, "{{\"harness\":{},\"assumption_violated\":{},\"bad_stream\":{},\"failures\":[", json_str(name), violated, bad_stream).unwrap();
    for (i, f) in failures.iter().enumerate() { if i > 0 { out.push(','); } out.push_str(&json_str(f)); }
    out.push_str("],\"covers\":[");
    for (i, f) in covers.iter().enumerate() { if i > 0 { out.push(','); } out.push_str(&json_str(f)); }
    out.push_str("],\"notes\":{");
    for (i, (k, v)) in notes.iter().enumerate() { if i > 0 { out.push(','); } out.push_str(&json_str(k)); out.push(':'); out.push_str(&json_str(v)); }
    out.push_str("}}");
    std::println!("{}", out);
    if violated || bad_stream { 2 } else if failures.is_empty() { 0 } else { 1 }
}
pub fn main() {
    let a: Vec<String> = std::env::args().collect();
    let code = match a.get(1).map(|s| s.as_str()) {
        Some("replay") => replay(&a[2], &a[3]),
        _ => { eprintln!("usage: fsearch replay <harness> <vals>"); 64 }
    };
    std::process::exit(code);
}
