// C05 / C08 / C17(search part) — completed fixed-depth searches on a fresh engine vs. the oracle.
use crate::absgame::board::Board;
use crate::absgame::*;
use crate::hcommon::*;
use crate::search::Searcher;
use crate::sym;

macro_rules! search_harness {
    ($name:ident, $unwind:literal, $body:block) => {
        #[cfg_attr(kani, kani::proof)]
        #[cfg_attr(kani, kani::unwind($unwind))]
        #[cfg_attr(kani, kani::stub(crate::history::HistoryTable::age, crate::hcommon::stub_age))]
        #[cfg_attr(kani, kani::stub(crate::history::HistoryTable::record_cutoff, crate::hcommon::stub_record))]
        #[cfg_attr(kani, kani::stub(crate::search::Searcher::order_moves, crate::hcommon::stub_order_moves))]
        #[cfg_attr(kani, kani::stub(crate::search::Searcher::order_captures, crate::hcommon::stub_order_captures))]
        pub fn $name() $body
    };
}
pub(crate) use search_harness;

fn c05_shape(b: usize, l: usize, depth: u8) {
    setup_game(b, l);
    let mut s = Searcher::new();
    let (score, mv) = s.find_best_move(&Board::root(), depth, None);
    check_result(score, mv, depth);
    // (witnesses are phrased on the reported score: it equals the oracle value by the assertions above, and every
    // further oracle evaluation would run the engine's quiescence again)
    vcover!(has_moves_at(0, 0) && score > 50 && score < 100, "in-window value");
    vcover!(has_moves_at(0, 0) && score > 40000, "mate value");
    vcover!(!has_moves_at(0, 0), "root without moves");
    core::mem::forget(s);
}

// depth 1, branching 2, one quiescence level (7 nodes)
search_harness!(c05_d1_b2_q1, 4, { c05_shape(2, 2, 1); });
// depth 1, branching 3, one quiescence level (13 nodes)
search_harness!(c05_d1_b3_q1, 5, { c05_shape(3, 2, 1); });
// depth 2, branching 2, one quiescence level (15 nodes)
search_harness!(c05_d2_b2_q1, 4, { c05_shape(2, 3, 2); });
// depth 2, branching 2, horizon nodes quiet (7 nodes)
search_harness!(c05_d2_b2_q0, 4, { c05_shape(2, 2, 2); });
// depth 3, branching 2, horizon nodes quiet (15 nodes)
search_harness!(c05_d3_b2_q0, 5, { c05_shape(2, 3, 3); });
// chain shapes (branching 1): iterative deepening, depth gate and the repetition/terminal plumbing at depth 2 and 3
// (both ran out of memory: 33 GB at 26 min for the depth-3 chain; kept for reference, not registered)
search_harness!(c05_d2_b1_q1, 3, { c05_shape(1, 3, 2); });
search_harness!(c05_d3_b1_q0, 3, { c05_shape(1, 3, 3); });
