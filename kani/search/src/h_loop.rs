// C16 — handshake, tolerance of unknown input, clean termination.
// Real code: Flounder::uci_loop, handle_command, handle_uci_command, handle_isready_command,
// handle_ucinewgame_command (and position/go over the abstract game) against the stdin / exit /
// println models of envmodel.rs and out.rs.
use crate::absgame::*;
use crate::envmodel;
use crate::hcommon::*;
use crate::out;
use crate::sym;
use crate::uci::Flounder;

pub const NKINDS: u8 = 12;
static mut UNKNOWN: [u8; 6] = [b'x'; 6];
fn unknown_line() -> &'static str { "<unknown line: symbolic bytes>" }
/// the line kinds a script is drawn from
fn line_of(kind: u8) -> &'static str {
    match kind {
        0 => "uci", 1 => "isready", 2 => "ucinewgame", 3 => "", 4 => "  \t ", 5 => unknown_line(), 6 => "quit",
        7 => "  isready  ", 8 => "position startpos", 9 => "go depth 1", 10 => "xyzzy uci", _ => "ucii",
    }
}
pub struct Hl { pub magic: u64, pub unknown_len: usize, pub nlines_in: usize, pub checked: bool }
pub static mut HL: Hl = Hl { magic: 0x5EED_1001_0BAD_F00D, unknown_len: 6, nlines_in: 0, checked: false };
static mut KINDS: [u8; 4] = [3; 4];
/// appends line i of the current script to the engine's read buffer (called by the stdin model); the unknown
/// line is appended byte by byte (a &str made from the static byte buffer with from_raw_parts made CBMC
/// report dead-object dereferences)
pub fn push_script_line(i: usize, buf: &mut String) -> usize {
    let k = unsafe { KINDS[if i < 4 { i } else { 3 }] };
    if k == 5 {
        let n = unsafe { HL.unknown_len };
        macro_rules! b { ($j:expr) => { if $j < n { buf.push(unsafe { UNKNOWN[$j] } as char); } }; }
        b!(0); b!(1); b!(2); b!(3); b!(4); b!(5);
        n
    } else { let l = line_of(k); buf.push_str(l); l.len() }
}

/// What the property prescribes for the script, compared with the captured output and exit status.
pub fn final_checks() {
    unsafe { HL.checked = true; }
    let n = unsafe { HL.nlines_in };
    // expected non-info output lines, in order
    let mut want = [0u8; 16]; let mut w = 0; let mut quit = false;
    macro_rules! line { ($i:expr) => { if $i < n && !quit { match unsafe { KINDS[$i] } {
        0 => { want[w] = out::K_ID_NAME; want[w + 1] = out::K_ID_AUTHOR; want[w + 2] = out::K_UCIOK; w += 3; }
        1 | 7 => { want[w] = out::K_READYOK; w += 1; }
        9 => { want[w] = if has_moves_at(0, 0) { out::K_BESTMOVE } else { out::K_BESTMOVE_NONE }; w += 1; }
        6 => { quit = true; }
        _ => {} } } }; }
    line!(0); line!(1); line!(2); line!(3);
    let mut got = 0; let mut ok = true;
    macro_rules! outl { ($i:expr) => { if $i < out::n() { let k = out::line($i).kind; if k != out::K_INFO { if got < w && want[got] == k { got += 1; } else { ok = false; } } } }; }
    outl!(0); outl!(1); outl!(2); outl!(3); outl!(4); outl!(5); outl!(6); outl!(7); outl!(8); outl!(9); outl!(10); outl!(11);
    vassert!(!unsafe { out::OUT.overflow }, "C16: more output lines than any correct answer has");
    vassert!(ok, "C16: output contains a line the protocol does not prescribe for this input (or lines in the wrong order)");
    vassert!(got == w, "C16: a prescribed answer (id/uciok, readyok or bestmove) is missing");
    let code = unsafe { envmodel::ENV.exit_code };
    if quit { vassert!(code == Some(0), "C16: quit did not terminate the process with status 0"); }
    else { vassert!(code.is_none() || code == Some(0), "C16: process terminated with a non-zero status at end of input"); }
    vcover!(quit && w >= 4, "handshake, readyok, quit");
    vcover!(!quit && w >= 1, "input ends without quit");
}

/// Runs uci_loop on a script whose i-th line is kind alt[i][0] or alt[i][1] (symbolic choice between two
/// concrete alternatives; equal entries make the line concrete), followed by end of input.
fn run_script(nlines: usize, alt: [[u8; 2]; 4]) {
    setup_game(1, 0);
    let mut script: [&'static str; 4] = [""; 4];
    unsafe {
        let ul = sym::u8() as usize; sym::assume(ul >= 1 && ul <= 6); HL.unknown_len = ul;
        // unknown line: printable ASCII, first character none of the command initials
        macro_rules! ub { ($i:expr) => { let c = sym::u8(); sym::assume(c >= 0x20 && c < 0x7f); UNKNOWN[$i] = c; }; }
        ub!(0); ub!(1); ub!(2); ub!(3); ub!(4); ub!(5);
        let c0 = UNKNOWN[0];
        sym::assume(c0 != b'u' && c0 != b'i' && c0 != b'p' && c0 != b'g' && c0 != b'q' && c0 != b' ');
        HL.nlines_in = nlines; HL.checked = false;
        macro_rules! pick { ($i:expr) => { if $i < nlines {
            let k = if alt[$i][0] == alt[$i][1] { alt[$i][0] } else if sym::bool() { alt[$i][0] } else { alt[$i][1] };
            KINDS[$i] = k; script[$i] = line_of(k); } }; }
        pick!(0); pick!(1); pick!(2); pick!(3);
        vnote!("script", "{:?} then end of input", &script[..nlines]);
        envmodel::reset(nlines);
        envmodel::ENV.at_exit_c16 = true;
    }
    out::reset();
    let mut f = Flounder::new();
    f.uci_loop();
    // uci_loop returned: main() returns, the process ends with status 0
    final_checks();
    core::mem::forget(f);
}
macro_rules! script_harness { ($name:ident, $n:literal, $alt:expr) => {
    #[cfg_attr(kani, kani::proof)]
    #[cfg_attr(kani, kani::unwind(20))]
    #[cfg_attr(kani, kani::stub(crate::history::HistoryTable::age, crate::hcommon::stub_age))]
    #[cfg_attr(kani, kani::stub(crate::moves::Move::to_algebraic, crate::hcommon::stub_to_algebraic))]
    pub fn $name() { run_script($n, $alt); }
}; }
// immediate end of input
script_harness!(c16_eof_only, 0, [[3, 3]; 4]);
// every single line kind (concrete), then end of input
script_harness!(c16_line_uci, 1, [[0, 0]; 4]);
script_harness!(c16_line_isready, 1, [[1, 1]; 4]);
script_harness!(c16_line_ucinewgame, 1, [[2, 2]; 4]);
script_harness!(c16_line_blank, 1, [[3, 3]; 4]);
script_harness!(c16_line_blanks, 1, [[4, 4]; 4]);
script_harness!(c16_line_unknown, 1, [[5, 5]; 4]);
script_harness!(c16_line_quit, 1, [[6, 6]; 4]);
script_harness!(c16_line_padded_isready, 1, [[7, 7]; 4]);
script_harness!(c16_line_position, 1, [[8, 8]; 4]);
script_harness!(c16_line_go, 1, [[9, 9]; 4]);
script_harness!(c16_line_near_miss1, 1, [[10, 10]; 4]);
script_harness!(c16_line_near_miss2, 1, [[11, 11]; 4]);
include!("gen/h_c16_cases.rs");
