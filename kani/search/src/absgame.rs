// Abstract game: replaces board / move_gen / eval / zobrist / timer for the real search.rs and
// uci.rs (module substitution, DESIGN §2.4).  A complete BR-ary tree with LEVELS levels below the
// root; node id lives in Board.halfmove_clock, the (always concrete) level in fullmove_counter.
// Everything about a node that the engine can observe is a symbolic table entry.
use crate::moves::{Move, MoveType};
use crate::pieces::{Color, Piece};

pub const MAXB: usize = 3;
pub const MAXN: usize = 40;

pub struct Game {
    pub nmoves: [u8; MAXN],        // legal moves at node (0..=BR)
    pub in_check: [bool; MAXN],
    pub qmask: [u8; MAXN],         // bit j: move j is tactical (capture/promotion/check)
    pub eval: [i32; MAXN],
    pub hash: [u64; MAXN],
    pub mt: [[u8; MAXB]; MAXN],    // 0 quiet, 1 capture, 4 promotion
    pub from: [[u8; MAXB]; MAXN],
    pub white_root: bool,
}
pub static mut G: Game = Game { nmoves: [0; MAXN], in_check: [false; MAXN], qmask: [0; MAXN], eval: [0; MAXN], hash: [0; MAXN],
    mt: [[0; MAXB]; MAXN], from: [[0; MAXB]; MAXN], white_root: true };
pub static mut BR: usize = 2;
pub static mut LEVELS: usize = 2;
/// Second hash assignment for the relational key-independence check (C13).
pub static mut HASH2: [u64; MAXN] = [0; MAXN];
pub static mut USE_HASH2: bool = false;
/// nodes identified as transpositions of another node (same hash, same subtree data): alias[n] = representative
pub static mut ALIAS: [u8; MAXN] = [0; MAXN];

// clock / instrumentation
pub static mut POLLS: u32 = 0;
pub static mut STOP_AT: u32 = u32::MAX;
pub static mut STOPPED: bool = false;
pub static mut NODES_AFTER_STOP: u32 = 0;
pub static mut NODES_SINCE_POLL: u32 = 0;
pub static mut MAX_NODES_BETWEEN_POLLS: u32 = 0;
pub static mut TOTAL_POLLS_LAST: u32 = 0;
pub static mut LAST_LIMIT_MS: Option<u64> = None;
pub static mut LAST_DEPTH_SEEN: u8 = 0;
/// which generator the engine called first since the last reset: 0 none, 1 generate_moves, 2 generate_quiescence_moves
pub static mut FIRST_GEN_KIND: u8 = 0;
pub static mut FIRST_GEN_NODE: u8 = 255;

pub fn g() -> &'static Game { unsafe { &*core::ptr::addr_of!(G) } }
pub fn gm() -> &'static mut Game { unsafe { &mut *core::ptr::addr_of_mut!(G) } }
pub fn br() -> usize { unsafe { BR } }
pub fn levels() -> usize { unsafe { LEVELS } }
pub fn set_shape(b: usize, l: usize) { unsafe { BR = b; LEVELS = l; } }
pub fn child(n: usize, j: usize) -> usize { n * br() + 1 + j }
/// number of nodes in the complete tree of the current shape
pub fn node_count() -> usize { let mut t = 0; let mut w = 1; let mut l = 0; while l <= levels() { t += w; w *= br(); l += 1; } t }
pub fn first_of_level(l: usize) -> usize { let mut t = 0; let mut w = 1; let mut i = 0; while i < l { t += w; w *= br(); i += 1; } t }

pub fn mk_move(n: usize, j: usize) -> Move {
    let t = g().mt[n][j];
    let mt = match t { 0 => MoveType::Quiet, 1 => MoveType::Capture, _ => MoveType::Promotion };
    Move::new(g().from[n][j], j as u8, if t == 4 { Piece::Queen } else { Piece::Knight }, mt)
}
pub fn reset_clock() { unsafe { POLLS = 0; STOPPED = false; NODES_AFTER_STOP = 0; NODES_SINCE_POLL = 0; MAX_NODES_BETWEEN_POLLS = 0; } }

pub mod board {
    use crate::moves::Move;
    use crate::pieces::{Color, Piece};
    #[derive(Copy, Clone)]
    pub struct Board { pub halfmove_clock: u8, pub fullmove_counter: u8, pub active_color: Color }
    impl Board {
        pub fn root() -> Self { Board { halfmove_clock: 0, fullmove_counter: 0, active_color: if super::g().white_root { Color::White } else { Color::Black } } }
        pub fn default() -> Self { Self::root() }
        /// abstract FEN: any string denotes the root of the abstract game (real FEN parsing is C04-F, on the real fen.rs)
        pub fn new(_fen: &str) -> Self { Self::root() }
        pub fn lvl(&self) -> usize { self.fullmove_counter as usize }
        pub fn node(&self) -> usize { self.halfmove_clock as usize }
        pub fn active_color(&self) -> Color { self.active_color }
        pub fn make_move(&mut self, mv: &Move) {
            let c = super::child(self.node(), mv.to as usize);
            self.halfmove_clock = if c < super::MAXN { c as u8 } else { 0 };
            self.fullmove_counter += 1;
            self.active_color = !self.active_color;
        }
        pub fn clone_with_move(&self, mv: &Move) -> Board { let mut b = *self; b.make_move(mv); b }
        pub fn get_piece_at(&self, _sq: u8) -> Option<Piece> { None }
    }
}
pub mod move_gen {
    use super::board::Board;
    use super::*;
    use crate::shimvec::Vec;
    pub struct MoveGenerator;
    impl MoveGenerator {
        pub fn new() -> Self { MoveGenerator }
        pub fn generate_moves(&self, b: &Board) -> Vec<Move> {
            let n = b.node();
            unsafe { if FIRST_GEN_KIND == 0 { FIRST_GEN_KIND = 1; FIRST_GEN_NODE = n as u8; } }
            let mut v = Vec::new();
            if b.lvl() >= levels() { return v; }
            if 0 < br() && 0 < g().nmoves[n] { v.push(mk_move(n, 0)); }
            if 1 < br() && 1 < g().nmoves[n] { v.push(mk_move(n, 1)); }
            if 2 < br() && 2 < g().nmoves[n] { v.push(mk_move(n, 2)); }
            v
        }
        pub fn generate_quiescence_moves(&self, b: &Board) -> Vec<Move> {
            let n = b.node();
            unsafe { if FIRST_GEN_KIND == 0 { FIRST_GEN_KIND = 2; FIRST_GEN_NODE = n as u8; } }
            let mut v = Vec::new();
            if b.lvl() >= levels() { return v; }
            let q = g().qmask[n];
            if 0 < br() && 0 < g().nmoves[n] && q & 1 != 0 { v.push(mk_move(n, 0)); }
            if 1 < br() && 1 < g().nmoves[n] && q & 2 != 0 { v.push(mk_move(n, 1)); }
            if 2 < br() && 2 < g().nmoves[n] && q & 4 != 0 { v.push(mk_move(n, 2)); }
            v
        }
        pub fn is_in_check(&self, b: &Board) -> bool {
            g().in_check[b.node()]
        }
    }
}
pub mod eval {
    use super::board::Board;
    use super::*;
    pub struct Evaluator;
    impl Evaluator { pub fn new() -> Self { Evaluator } pub fn evaluate(&mut self, b: &Board) -> i32 { g().eval[b.node()] } }
}
pub mod zobrist {
    use super::board::Board;
    use super::*;
    pub struct ZobristTable;
    impl ZobristTable {
        pub fn new() -> Self { ZobristTable }
        pub fn hash(&self, b: &Board) -> u64 { unsafe { if USE_HASH2 { HASH2[b.node()] } else { g().hash[b.node()] } } }
    }
}
pub mod timer {
    use super::*;
    use std::time::Duration;
    pub struct SearchTimer { pub limited: bool, pub nodes_searched: u64 }
    impl SearchTimer {
        pub fn new() -> Self { Self { limited: false, nodes_searched: 0 } }
        pub fn start(&mut self, l: Option<Duration>) {
            self.limited = l.is_some(); self.nodes_searched = 0;
            unsafe { LAST_LIMIT_MS = match l { Some(d) => Some(crate::hcommon::dur_ms(d)), None => None }; }
            reset_clock();
        }
        pub fn increment_nodes(&mut self) {
            self.nodes_searched += 1;
            unsafe {
                if STOPPED { NODES_AFTER_STOP += 1; }
                NODES_SINCE_POLL += 1;
                if NODES_SINCE_POLL > MAX_NODES_BETWEEN_POLLS { MAX_NODES_BETWEEN_POLLS = NODES_SINCE_POLL; }
            }
        }
        /// The deadline falls after poll number STOP_AT: polls 1..=STOP_AT answer false, later ones true.
        pub fn should_stop(&self) -> bool {
            unsafe { NODES_SINCE_POLL = 0; }
            if !self.limited { return false; }
            unsafe { POLLS += 1; let s = POLLS > STOP_AT; if s { STOPPED = true; } s }
        }
        pub fn print_info(&self, d: u8, s: i32, m: Option<Move>) { crate::out::info(d, s, self.nodes_searched, m); }
    }
}
