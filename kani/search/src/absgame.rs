// Abstract game: replaces board / move_gen / eval / zobrist / timer for the real search.rs and
// uci.rs (module substitution, DESIGN §2.4).  A complete CLK.br-ary tree with CLK.levels levels below the
// root; node id lives in Board.halfmove_clock, the (always concrete) level in fullmove_counter.
// Everything about a node that the engine can observe is a symbolic table entry.
use crate::moves::{Move, MoveType};
use crate::pieces::{Color, Piece};

pub const MAXB: usize = 3;
pub const MAXN: usize = 40;

pub struct Game {
    pub nmoves: [u8; MAXN],        // legal moves at node (0..=CLK.br)
    pub in_check: [bool; MAXN],
    pub qmask: [u8; MAXN],         // bit j: move j is tactical (capture/promotion/check)
    pub eval: [i32; MAXN],
    pub hash: [u64; MAXN],
    pub mt: [[u8; MAXB]; MAXN],    // 0 quiet, 1 capture, 4 promotion
    pub from: [[u8; MAXB]; MAXN],
    pub white_root: bool,
}
pub static mut G: Game = Game { nmoves: [0; MAXN], in_check: [false; MAXN], qmask: [0; MAXN], eval: [0; MAXN], hash: [0; MAXN],
    mt: [[0; MAXB]; MAXN], from: [[0; MAXB]; MAXN], white_root: true };
/// Second hash assignment for the relational key-independence check (C13).
/// All scalar harness state of the abstract game lives in ONE struct with a distinctive `magic` field, so that its
/// initial bytes cannot coincide with any constant of the compiled code (see the note in envmodel.rs).
pub struct Clk { pub magic: u64, pub br: usize, pub levels: usize, pub use_hash2: bool, pub polls: u32, pub stop_at: u32, pub stopped: bool,
    pub nodes_after_stop: u32, pub nodes_since_poll: u32, pub max_nodes_between_polls: u32, pub total_polls_last: u32, pub last_limit_ms: Option<u64>,
    pub last_depth_seen: u8, pub first_gen_kind: u8, pub first_gen_node: u8 }
pub static mut CLK: Clk = Clk { magic: 0x5EED_C10C_0BAD_F00D, br: 2, levels: 2, use_hash2: false, polls: 0, stop_at: u32::MAX, stopped: false,
    nodes_after_stop: 0, nodes_since_poll: 0, max_nodes_between_polls: 0, total_polls_last: 0, last_limit_ms: None, last_depth_seen: 0, first_gen_kind: 0, first_gen_node: 255 };
pub static mut HASH2: [u64; MAXN] = [0; MAXN];
/// nodes identified as transpositions of another node (same hash, same subtree data): alias[n] = representative
pub static mut ALIAS: [u8; MAXN] = [0; MAXN];

// clock / instrumentation
// sentinels: see the note in envmodel.rs; reset_clock() sets the counters to 0
/// which generator the engine called first since the last reset: 0 none, 1 generate_moves, 2 generate_quiescence_moves

pub fn g() -> &'static Game { unsafe { &*core::ptr::addr_of!(G) } }
pub fn gm() -> &'static mut Game { unsafe { &mut *core::ptr::addr_of_mut!(G) } }
pub fn br() -> usize { unsafe { CLK.br } }
pub fn levels() -> usize { unsafe { CLK.levels } }
pub fn set_shape(b: usize, l: usize) { unsafe { CLK.br = b; CLK.levels = l; } }
pub fn child(n: usize, j: usize) -> usize { n * br() + 1 + j }
/// number of nodes in the complete tree of the current shape (loop-free: harness-side loops would force a larger
/// global unwinding bound, and every extra unwinding multiplies the inlined recursion of the engine's search)
pub fn node_count() -> usize { first_of_level(levels() + 1) }
pub fn first_of_level(l: usize) -> usize {
    let b = br();
    let mut t = 0;
    if l >= 1 { t += 1; } if l >= 2 { t += b; } if l >= 3 { t += b * b; } if l >= 4 { t += b * b * b; } if l >= 5 { t += b * b * b * b; }
    t
}

pub fn mk_move(n: usize, j: usize) -> Move {
    let t = g().mt[n][j];
    let mt = match t { 0 => MoveType::Quiet, 1 => MoveType::Capture, _ => MoveType::Promotion };
    Move::new(g().from[n][j], j as u8, if t == 4 { Piece::Queen } else { Piece::Knight }, mt)
}
pub fn reset_clock() { unsafe { CLK.polls = 0; CLK.stopped = false; CLK.nodes_after_stop = 0; CLK.nodes_since_poll = 0; CLK.max_nodes_between_polls = 0; } }

pub mod board {
    use crate::moves::Move;
    use crate::pieces::{Color, Piece};
    #[derive(Copy, Clone)]
    pub struct Board { pub halfmove_clock: u8, pub fullmove_counter: u8, pub active_color: Color }
    impl Board {
        pub fn root() -> Self { Board { halfmove_clock: 0, fullmove_counter: 0, active_color: if super::g().white_root { Color::White } else { Color::Black } } }
        pub fn default() -> Self { Self::root() }
        /// abstract FEN: any string denotes the root of the abstract game (real FEN parsing is C04-F, on the real fen.rs)
        pub fn new(_fen: &str) -> Self { Self::root() }
        pub fn lvl(&self) -> usize { self.fullmove_counter as usize }
        pub fn node(&self) -> usize { self.halfmove_clock as usize }
        pub fn active_color(&self) -> Color { self.active_color }
        pub fn make_move(&mut self, mv: &Move) {
            let c = super::child(self.node(), mv.to as usize);
            self.halfmove_clock = if c < super::MAXN { c as u8 } else { 0 };
            self.fullmove_counter += 1;
            self.active_color = !self.active_color;
        }
        pub fn clone_with_move(&self, mv: &Move) -> Board { let mut b = *self; b.make_move(mv); b }
        pub fn get_piece_at(&self, _sq: u8) -> Option<Piece> { None }
    }
}
pub mod move_gen {
    use super::board::Board;
    use super::*;
    use crate::shimvec::Vec;
    pub struct MoveGenerator;
    impl MoveGenerator {
        pub fn new() -> Self { MoveGenerator }
        pub fn generate_moves(&self, b: &Board) -> Vec<Move> {
            let n = b.node();
            unsafe { if CLK.first_gen_kind == 0 { CLK.first_gen_kind = 1; CLK.first_gen_node = n as u8; } }
            let mut v = Vec::new();
            if b.lvl() >= levels() { return v; }
            if 0 < br() && 0 < g().nmoves[n] { v.push(mk_move(n, 0)); }
            if 1 < br() && 1 < g().nmoves[n] { v.push(mk_move(n, 1)); }
            if 2 < br() && 2 < g().nmoves[n] { v.push(mk_move(n, 2)); }
            v
        }
        pub fn generate_quiescence_moves(&self, b: &Board) -> Vec<Move> {
            let n = b.node();
            unsafe { if CLK.first_gen_kind == 0 { CLK.first_gen_kind = 2; CLK.first_gen_node = n as u8; } }
            let mut v = Vec::new();
            if b.lvl() >= levels() { return v; }
            let q = g().qmask[n];
            if 0 < br() && 0 < g().nmoves[n] && q & 1 != 0 { v.push(mk_move(n, 0)); }
            if 1 < br() && 1 < g().nmoves[n] && q & 2 != 0 { v.push(mk_move(n, 1)); }
            if 2 < br() && 2 < g().nmoves[n] && q & 4 != 0 { v.push(mk_move(n, 2)); }
            v
        }
        pub fn is_in_check(&self, b: &Board) -> bool {
            g().in_check[b.node()]
        }
    }
}
pub mod eval {
    use super::board::Board;
    use super::*;
    pub struct Evaluator;
    impl Evaluator { pub fn new() -> Self { Evaluator } pub fn evaluate(&mut self, b: &Board) -> i32 { g().eval[b.node()] } }
}
pub mod zobrist {
    use super::board::Board;
    use super::*;
    pub struct ZobristTable;
    impl ZobristTable {
        pub fn new() -> Self { ZobristTable }
        pub fn hash(&self, b: &Board) -> u64 { unsafe { if CLK.use_hash2 { HASH2[b.node()] } else { g().hash[b.node()] } } }
    }
}
pub mod timer {
    use super::*;
    use std::time::Duration;
    pub struct SearchTimer { pub limited: bool, pub nodes_searched: u64 }
    impl SearchTimer {
        pub fn new() -> Self { Self { limited: false, nodes_searched: 0 } }
        pub fn start(&mut self, l: Option<Duration>) {
            self.limited = l.is_some(); self.nodes_searched = 0;
            unsafe { CLK.last_limit_ms = match l { Some(d) => Some(crate::hcommon::dur_ms(d)), None => None }; }
            reset_clock();
        }
        pub fn increment_nodes(&mut self) {
            self.nodes_searched += 1;
            unsafe {
                if CLK.stopped { CLK.nodes_after_stop += 1; }
                CLK.nodes_since_poll += 1;
                if CLK.nodes_since_poll > CLK.max_nodes_between_polls { CLK.max_nodes_between_polls = CLK.nodes_since_poll; }
            }
        }
        /// The deadline falls after poll number CLK.stop_at: polls 1..=CLK.stop_at answer false, later ones true.
        pub fn should_stop(&self) -> bool {
            unsafe { CLK.nodes_since_poll = 0; }
            if !self.limited { return false; }
            unsafe { CLK.polls += 1; let s = CLK.polls > CLK.stop_at; if s { CLK.stopped = true; } s }
        }
        pub fn print_info(&self, d: u8, s: i32, m: Option<Move>) { crate::out::info(d, s, self.nodes_searched, m); }
    }
}
