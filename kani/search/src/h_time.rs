// C12 — thinking time is taken from the mover's own clock and fits in it.
// Real code: Flounder::calculate_move_time (token scan, str::parse::<u64>, allocation arithmetic)
// and Flounder::handle_go_command (token loop, the limit actually handed to the search).
use crate::absgame::*;
use crate::hcommon::*;
use crate::sym;
use crate::uci::Flounder;

/// A decimal token of symbolic ASCII digits and its value: `any_num()` is the zero-padded 8-digit
/// spelling of every value 0 .. 99 999 999 ms (~27.7 h); `any_num_varlen()` has 1..=8 digits.
pub struct Num { pub buf: [u8; 8], pub len: usize, pub val: u64 }
impl Num {
    pub fn s(&self) -> &str { unsafe { core::str::from_utf8_unchecked(core::slice::from_raw_parts(self.buf.as_ptr(), self.len)) } }
}
pub fn any_num() -> Num {
    let mut buf = [b'0'; 8]; let mut val = 0u64;
    macro_rules! digit { ($i:expr) => { let d = sym::u8(); sym::assume(d < 10); buf[$i] = b'0' + d; val = val * 10 + d as u64; }; }
    digit!(0); digit!(1); digit!(2); digit!(3); digit!(4); digit!(5); digit!(6); digit!(7);
    Num { buf, len: 8, val }
}
/// a one-digit number (keeps the loop bound of str::parse at 2 in harnesses that also unroll the search)
pub fn any_num_1digit() -> Num {
    let d = sym::u8(); sym::assume(d < 10);
    let mut buf = [b'0'; 8]; buf[0] = b'0' + d;
    Num { buf, len: 1, val: d as u64 }
}
pub fn any_num_varlen() -> Num {
    let len = sym::u8() as usize; sym::assume(len >= 1 && len <= 8);
    let mut buf = [b'0'; 8]; let mut val = 0u64;
    macro_rules! digit { ($i:expr) => { if $i < len { let d = sym::u8(); sym::assume(d < 10); buf[$i] = b'0' + d; val = val * 10 + d as u64; } }; }
    digit!(0); digit!(1); digit!(2); digit!(3); digit!(4); digit!(5); digit!(6); digit!(7);
    Num { buf, len, val }
}
const NAMES: [&str; 4] = ["wtime", "btime", "winc", "binc"];
fn any_perm() -> [usize; 4] {
    let a = sym::u8() as usize; let b = sym::u8() as usize; let c = sym::u8() as usize;
    sym::assume(a < 4 && b < 4 && c < 4 && a != b && a != c && b != c);
    [a, b, c, 6 - a - b - c]
}
fn check_budget(ms: u64, time_left: u64) {
    vassert!(ms <= time_left, "C12: time budget exceeds the mover's remaining time");
    vassert!(time_left == 0 || ms < time_left, "C12: time budget not strictly below the mover's remaining time");
}

/// calculate_move_time on `go <the first K of the four clock tokens in the order p>`: the budget fits
/// in the mover's clock and is unchanged when only the opponent's numbers change.  One harness per
/// ordered token subset x colour (64 orders x 2 colours = 128 cases); all numbers symbolic.
/// (The slice length is concrete per case: a symbolic length defeats CBMC's constant propagation
/// through the token match and blew the encoding up 10x.)
fn move_time_case<const LEN: usize>(p: [usize; 4], white: bool) {
    let K = (LEN - 1) / 2;
    gm().white_root = white;
    let n = [any_num(), any_num(), any_num(), any_num()];   // wtime btime winc binc
    let o = [any_num(), any_num(), any_num(), any_num()];   // alternative numbers for the opponent's tokens
    let mine = |i: usize| if white { i == 0 || i == 2 } else { i == 1 || i == 3 };
    let full1: [&str; 9] = ["go", NAMES[p[0]], n[p[0]].s(), NAMES[p[1]], n[p[1]].s(), NAMES[p[2]], n[p[2]].s(), NAMES[p[3]], n[p[3]].s()];
    let alt = |i: usize| if mine(i) { n[i].s() } else { o[i].s() };
    let full2: [&str; 9] = ["go", NAMES[p[0]], alt(p[0]), NAMES[p[1]], alt(p[1]), NAMES[p[2]], alt(p[2]), NAMES[p[3]], alt(p[3])];
    let mut parts1 = [""; LEN]; let mut parts2 = [""; LEN];
    let mut j = 0; while j < LEN { parts1[j] = full1[j]; parts2[j] = full2[j]; j += 1; }
    let present = |i: usize| (p[0] == i) || (K >= 2 && p[1] == i) || (K >= 3 && p[2] == i) || K >= 4;
    let (ti, ii) = if white { (0, 2) } else { (1, 3) };
    let time_left = if present(ti) { n[ti].val } else { 0 };
    let inc = if present(ii) { n[ii].val } else { 0 };
    vnote!("go", "{:?} white={} time_left={} inc={}", &parts1, white, time_left, inc);
    let root = crate::absgame::board::Board::root();
    let d1 = crate::uci::vh::with_board_only(root, |f| crate::uci::vh::move_time(f, &parts1, 1));
    let d2 = crate::uci::vh::with_board_only(root, |f| crate::uci::vh::move_time(f, &parts2, 1));
    vassert!(d1.is_some() && d2.is_some(), "C12: no budget computed from clock tokens");
    let ms1 = dur_ms(d1.unwrap()); let ms2 = dur_ms(d2.unwrap());
    vnote!("budget", "{} ms (with other opponent numbers: {} ms)", ms1, ms2);
    check_budget(ms1, time_left);
    vassert!(ms1 == ms2, "C12: budget depends on the opponent's clock or increment");
    vcover!(ms1 == ms2, "budget computed twice");
    vcover!(time_left > 5000 && inc > 0 && ms1 > inc, "base share plus increment");
    vcover!(time_left > 0 && time_left < 5000, "clock below the reserve");
}
macro_rules! mt_case { ($name:ident, $k:literal, $a:literal, $b:literal, $c:literal, $d:literal, $w:literal) => {
    #[cfg_attr(kani, kani::proof)]
    #[cfg_attr(kani, kani::unwind(10))]
    #[cfg_attr(kani, kani::stub(core::time::Duration::from_millis, crate::hcommon::stub_from_millis))]
    pub fn $name() { move_time_case::<{ 1 + 2 * $k }>([$a, $b, $c, $d], $w); }
}; }
include!("gen/h_time_cases.rs");

/// The whole go command: the limit handed to the search (observed at SearchTimer::start) obeys
/// the same bounds, with an optional leading `depth n`.  Token order concrete per harness (order
/// independence itself is what the 128 calculate_move_time cases decide).
fn go_limit_case(p: [usize; 4]) {
    setup_game(1, 0);
    let white = g().white_root;
    let mut f = Flounder::new();
    let n = [any_num(), any_num(), any_num(), any_num()];
    let with_depth = sym::bool();
    let (ti, _ii) = if white { (0, 2) } else { (1, 3) };
    let clock: [&str; 8] = [NAMES[p[0]], n[p[0]].s(), NAMES[p[1]], n[p[1]].s(), NAMES[p[2]], n[p[2]].s(), NAMES[p[3]], n[p[3]].s()];
    // the deadline falls before the first poll: the search is cut at once, only the limit handed over matters here
    unsafe { CLK.last_limit_ms = None; CLK.stop_at = 0; }
    if with_depth {
        let parts: [&str; 11] = ["go", "depth", "1", clock[0], clock[1], clock[2], clock[3], clock[4], clock[5], clock[6], clock[7]];
        crate::uci::vh::go(&mut f, &parts);
    } else {
        let parts: [&str; 9] = ["go", clock[0], clock[1], clock[2], clock[3], clock[4], clock[5], clock[6], clock[7]];
        crate::uci::vh::go(&mut f, &parts);
    }
    let lim = unsafe { CLK.last_limit_ms };
    vnote!("go", "{:?} white={} with_depth={} limit={:?}", clock, white, with_depth, lim);
    vassert!(lim.is_some(), "C12: go with clock tokens started an untimed search");
    if let Some(ms) = lim { check_budget(ms, n[ti].val); }
    vcover!(with_depth && lim.is_some(), "depth before clocks");
    core::mem::forget(f);
}
macro_rules! go_limit_harness { ($name:ident, $p:expr) => {
    #[cfg_attr(kani, kani::proof)]
    #[cfg_attr(kani, kani::unwind(10))]
    #[cfg_attr(kani, kani::stub(core::time::Duration::from_millis, crate::hcommon::stub_from_millis))]
    #[cfg_attr(kani, kani::stub(crate::history::HistoryTable::age, crate::hcommon::stub_age))]
    #[cfg_attr(kani, kani::stub(crate::moves::Move::to_algebraic, crate::hcommon::stub_to_algebraic))]
    pub fn $name() { go_limit_case($p); }
}; }
go_limit_harness!(c12_go_limit_0123, [0, 1, 2, 3]);
go_limit_harness!(c12_go_limit_3210, [3, 2, 1, 0]);

/// Spellings with 1..=8 digits (no zero padding): same bounds for the canonical token order.
#[cfg_attr(kani, kani::proof)]
#[cfg_attr(kani, kani::unwind(10))]
#[cfg_attr(kani, kani::stub(core::time::Duration::from_millis, crate::hcommon::stub_from_millis))]
pub fn c12_varlen_tokens() {
    let white = sym::bool();
    gm().white_root = white;
    let n = [any_num_varlen(), any_num_varlen(), any_num_varlen(), any_num_varlen()];
    let parts: [&str; 9] = ["go", "wtime", n[0].s(), "btime", n[1].s(), "winc", n[2].s(), "binc", n[3].s()];
    let (ti, ii) = if white { (0, 2) } else { (1, 3) };
    vnote!("go", "{:?} white={}", &parts, white);
    let d = crate::uci::vh::with_board_only(crate::absgame::board::Board::root(), |f| crate::uci::vh::move_time(f, &parts, 1));
    vassert!(d.is_some(), "C12: no budget computed from clock tokens");
    let ms = dur_ms(d.unwrap());
    vnote!("budget", "{} ms", ms);
    check_budget(ms, n[ti].val);
    vcover!(n[ti].len == 1 && n[ii].len == 8, "one-digit clock, eight-digit increment");
}
