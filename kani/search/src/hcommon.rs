// Shared pieces of the search-level harnesses: symbolic game set-up, the minimax/quiescence oracle,
// the models substituted for ordering and history (Kani stubs; same functions patched in natively).
use crate::absgame::board::Board;
use crate::absgame::*;
use crate::history::HistoryTable;
use crate::moves::{Move, MoveType};
use crate::search::vh::{CM, INF, NEG_INF};
use crate::search::Searcher;
use crate::sym;

/// |static eval| bound assumed for abstract leaves; C14 proves the real evaluator stays inside it.
pub const EVAL_BOUND: i32 = 20000;

// ---- models (arbitrary permutation; arbitrary non-negative history scores; no-op age/record)
/// when set, the ordering model is the identity (used by the relational determinism harnesses, where
/// an arbitrary permutation would make the two runs differ by construction)
pub struct Hc { pub magic: u64, pub order_identity: bool }
pub static mut HC: Hc = Hc { magic: 0x5EED_4C4C_0BAD_F00D, order_identity: false };
pub fn permute(moves: &mut [Move]) {
    if unsafe { HC.order_identity } { return; }
    let n = moves.len();
    if n >= 2 && sym::bool() { moves.swap(0, 1); }
    if n >= 3 { if sym::bool() { moves.swap(1, 2); } if sym::bool() { moves.swap(0, 1); } }
}
pub fn stub_order_moves(_s: &Searcher, _b: &Board, moves: &mut [Move], _tt: Option<Move>, _ply: u8) { permute(moves) }
pub fn stub_order_captures(_s: &Searcher, moves: &mut [Move], _b: &Board) { permute(moves) }
pub fn stub_age(_h: &mut HistoryTable) {}
pub fn stub_record(_h: &mut HistoryTable, _m: &Move, _d: u8) {}
pub fn stub_get_score(_h: &HistoryTable, _m: &Move) -> i32 { 0 }
pub fn stub_to_algebraic(m: Move) -> String {
    unsafe { crate::out::OUT.last_rendered = Some(m); }
    String::from(match m.to { 0 => "m0", 1 => "m1", _ => "m2" })
}

/// Model of std's Duration::from_millis for the time-allocation harnesses: the millisecond count is
/// carried verbatim in the seconds field (no /1000, %1000, u128 arithmetic for the solver to undo);
/// `dur_ms` reads it back.  Natively the real std functions are used.
pub fn stub_from_millis(ms: u64) -> core::time::Duration { core::time::Duration::new(ms, 0) }
#[cfg(kani)]
pub fn dur_ms(d: core::time::Duration) -> u64 { d.as_secs() }
#[cfg(not(kani))]
pub fn dur_ms(d: core::time::Duration) -> u64 { d.as_millis() as u64 }

// ---- symbolic game
macro_rules! for_nodes { ($f:ident) => {
    $f(0); $f(1); $f(2); $f(3); $f(4); $f(5); $f(6); $f(7); $f(8); $f(9); $f(10); $f(11); $f(12); $f(13); $f(14); $f(15); $f(16); $f(17); $f(18); $f(19);
    $f(20); $f(21); $f(22); $f(23); $f(24); $f(25); $f(26); $f(27); $f(28); $f(29); $f(30); $f(31); $f(32); $f(33); $f(34); $f(35); $f(36); $f(37); $f(38); $f(39);
}; }
fn setup_node(n: usize) {
    if n >= node_count() { return; }
    let gm = gm();
    let nm = sym::u8(); sym::assume(nm as usize <= br());
    gm.nmoves[n] = nm;
    gm.in_check[n] = sym::bool();
    let q = sym::u8(); sym::assume(q < 8);
    gm.qmask[n] = q;
    let e = sym::i32(); sym::assume(e > -EVAL_BOUND && e < EVAL_BOUND);
    gm.eval[n] = e;
    let h = sym::u64(); sym::assume(h & 63 == n as u64);   // injective by construction (low 6 bits = node id)
    gm.hash[n] = h;
    let t0 = sym::u8(); sym::assume(t0 == 0 || t0 == 1 || t0 == 4); gm.mt[n][0] = t0;
    let f0 = sym::u8(); sym::assume(f0 < 64); gm.from[n][0] = f0;
    if br() > 1 { let t = sym::u8(); sym::assume(t == 0 || t == 1 || t == 4); gm.mt[n][1] = t; let f = sym::u8(); sym::assume(f < 64); gm.from[n][1] = f; }
    if br() > 2 { let t = sym::u8(); sym::assume(t == 0 || t == 1 || t == 4); gm.mt[n][2] = t; let f = sym::u8(); sym::assume(f < 64); gm.from[n][2] = f; }
}
/// Every abstract game of the shape: `b` = branching bound, `l` = number of levels below the root.
pub fn setup_game(b: usize, l: usize) {
    set_shape(b, l);
    gm().white_root = sym::bool();
    for_nodes!(setup_node);
    unsafe { CLK.stop_at = u32::MAX; CLK.use_hash2 = false; CLK.first_gen_kind = 0; HC.order_identity = false; }
    reset_clock();
    crate::out::reset();
    #[cfg(not(kani))]
    describe();
}
#[cfg(not(kani))]
pub fn describe() {
    let mut s = format!("B={} L={} white_root={} ", br(), levels(), g().white_root);
    for n in 0..node_count() {
        s.push_str(&format!("[n{} moves={} chk={} q={:03b} eval={} hash={:#x} mt={:?} from={:?}] ", n, g().nmoves[n], g().in_check[n], g().qmask[n], g().eval[n], g().hash[n], &g().mt[n][..br()], &g().from[n][..br()]));
    }
    sym::note("game", s);
}

// ---- oracle: plain minimax with the engine's quiescence definition at the horizon.
// Node ids and levels are concrete here (the recursion enumerates children by concrete index).
pub fn lvl_of(n: usize) -> usize {
    if n < first_of_level(1) { 0 } else if n < first_of_level(2) { 1 } else if n < first_of_level(3) { 2 } else if n < first_of_level(4) { 3 } else { 4 }
}
pub fn has_moves_at(n: usize, lvl: usize) -> bool { lvl < levels() && g().nmoves[n] > 0 }
pub fn has_moves(n: usize) -> bool { has_moves_at(n, lvl_of(n)) }
/// Explicit model of the quiescence value (stand pat, then captures/promotions/checks - every move when in check).
/// Used only where the engine's quiescence is not the subject; the C05/C09 oracles use `q_engine` instead.
pub fn qvalue_at(n: usize, lvl: usize) -> i64 {
    let gm = g(); let inchk = gm.in_check[n];
    let mut best: i64 = gm.eval[n] as i64; let mut any = false;
    if lvl < levels() {
        macro_rules! kid { ($j:expr) => { if $j < br() && ($j as u8) < gm.nmoves[n] && (inchk || (gm.qmask[n] >> $j) & 1 == 1) { any = true; let v = -qvalue_at(child(n, $j), lvl + 1); if v > best { best = v; } } }; }
        kid!(0); kid!(1); kid!(2);
    }
    if !any && inchk { return -(CM as i64); }
    best
}
/// "The engine's own quiescence evaluation" of a horizon node, as the property words it: the real
/// search_until_quiet run with the full window on a searcher that has searched nothing.  The oracle therefore
/// follows whatever quiescence the engine defines (a consistent redefinition is not a C05 violation) while any
/// dependence of a leaf's value on the window or on search state shows up as a difference.
pub fn q_engine(n: usize, lvl: usize) -> i64 {
    // one oracle searcher per harness run would do (quiescence touches neither the table nor the killers), but a
    // searcher per call keeps "has searched nothing" literally true; the cost is accepted
    let mut os = Searcher::new();
    let white = g().white_root == (lvl % 2 == 0);
    let b = Board { halfmove_clock: n as u8, fullmove_counter: lvl as u8, active_color: if white { crate::pieces::Color::White } else { crate::pieces::Color::Black } };
    let v = crate::search::vh::quiesce(&mut os, &b, NEG_INF, INF) as i64;
    core::mem::forget(os);
    v
}
pub fn value_at(n: usize, lvl: usize, d: u8) -> i64 {
    let gm = g();
    if d == 0 { return q_engine(n, lvl); }
    if !has_moves_at(n, lvl) { return if gm.in_check[n] { -(CM as i64) + d as i64 } else { 0 }; }
    let mut best = i64::MIN;
    macro_rules! kid { ($j:expr) => { if $j < br() && ($j as u8) < gm.nmoves[n] { let v = -value_at(child(n, $j), lvl + 1, d - 1); if v > best { best = v; } } }; }
    kid!(0); kid!(1); kid!(2);
    best
}
pub fn value(n: usize, d: u8) -> i64 { value_at(n, lvl_of(n), d) }
pub fn qvalue(n: usize) -> i64 { qvalue_at(n, lvl_of(n)) }
pub fn norm(x: i64) -> i64 { if x > INF as i64 { INF as i64 } else if x < NEG_INF as i64 { NEG_INF as i64 } else { x } }

/// The C05 oracle applied to a completed search result at the root.  The children's values are computed once each
/// (every horizon value is a run of the engine's own quiescence on a fresh searcher - the dominant cost).
pub fn check_result(score: i32, mv: Option<Move>, depth: u8) {
    if has_moves_at(0, 0) {
        let mut vals = [i64::MIN; 3];
        macro_rules! kid { ($j:expr) => { if $j < br() && ($j as u8) < g().nmoves[0] { vals[$j] = -value_at(child(0, $j), 1, depth - 1); } }; }
        kid!(0); kid!(1); kid!(2);
        let mut want = vals[0]; if vals[1] > want { want = vals[1]; } if vals[2] > want { want = vals[2]; }
        vassert!(norm(score as i64) == norm(want), "C05: reported score differs from the minimax value of the depth-limited tree");
        vassert!(mv.is_some(), "C05: no move returned although the root has legal moves");
        if let Some(m) = mv {
            let legal = m.to < g().nmoves[0] && (m.to as usize) < br() && m == mk_move(0, m.to as usize);
            vassert!(legal, "C05: returned move is not one of the root's moves");
            if legal {
                let cv = if m.to == 0 { vals[0] } else if m.to == 1 { vals[1] } else { vals[2] };
                vassert!(norm(cv) == norm(want), "C05: returned move does not attain the minimax value");
            }
        }
    } else {
        vassert!(mv.is_none(), "C05: a move was returned for a position without legal moves");
    }
}
