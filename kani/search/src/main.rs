// Search-layer harness crate: the real search.rs, transposition.rs, killer_moves.rs, history.rs,
// repetition.rs, uci.rs and moves.rs from /repo/src, compiled against the abstract game
// (module substitution) and the environment models (map, stdin/exit/println).
#![recursion_limit = "1024"]
#![allow(dead_code, unused_imports, unused_variables, unused_mut, unused_macros, static_mut_refs, unreachable_code)]

#[macro_use]
pub mod sym { include!("../../common/sym.rs"); }

// println! inside the included engine files is routed to the captured-output log.
macro_rules! println {
    () => { $crate::out::text($crate::out::K_OTHER, false) };
    ($fmt:literal) => {{ const K: u8 = $crate::out::kind_of($fmt); $crate::out::text(K, false) }};
    ($fmt:literal, $($arg:expr),+ $(,)?) => {{ const K: u8 = $crate::out::kind_of($fmt); $(let _ = &$arg;)+ $crate::out::text(K, true) }};
}
macro_rules! print { ($($t:tt)*) => {{}}; }

macro_rules! real_mod { ($name:ident, $file:literal) => { pub mod $name { include!(concat!(env!("FLOUNDER_SRC"), "/", $file)); } }; }
real_mod!(pieces, "pieces.rs");
real_mod!(square, "square.rs");
real_mod!(bitboard, "bitboard.rs");
#[cfg(kani)]
real_mod!(moves, "moves.rs");
#[cfg(not(kani))]
pub mod moves { include!("gen/moves_native.rs"); }
real_mod!(killer_moves, "killer_moves.rs");
pub mod repetition {
    include!(concat!(env!("FLOUNDER_SRC"), "/repetition.rs"));
    pub mod vh { use super::*; pub fn raw(t: &RepetitionTable) -> &Vec<u64> { &t.hashes } }
}
pub mod history {
    include!(concat!(env!("FLOUNDER_SRC"), "/history.rs"));
    pub mod vh { use super::*; pub fn cell(h: &HistoryTable, f: usize, t: usize) -> i32 { h.scores[f][t] }
        pub fn set_cell(h: &mut HistoryTable, f: usize, t: usize, v: i32) { h.scores[f][t] = v; } }
}
pub mod shim;
pub mod shimvec;
pub mod out;
pub mod envmodel;
pub mod transposition {
    mod std { pub use ::std::*; pub mod collections { pub use crate::shim::HashMap; } }
    include!(concat!(env!("FLOUNDER_SRC"), "/transposition.rs"));
    pub mod vh {
        use super::*;
        pub fn map(t: &TranspositionTable) -> &crate::shim::HashMap<u64, Entry> { &t.table }
        pub fn map_mut(t: &mut TranspositionTable) -> &mut crate::shim::HashMap<u64, Entry> { &mut t.table }
    }
}
pub mod absgame;
pub use absgame::{board, eval, move_gen, timer, zobrist};
pub mod search {
    #[cfg(kani)]
    include!(concat!(env!("FLOUNDER_SRC"), "/search.rs"));
    #[cfg(not(kani))]
    include!("gen/search_native.rs");
    pub mod vh {
        use super::*;
        pub const NEG_INF: i32 = NEGATIVE_INFINITY; pub const INF: i32 = INFINITY; pub const CM: i32 = CHECKMATE_SCORE;
        pub fn rep_len(s: &Searcher) -> usize { s.repetition.len() }
        pub fn rep(s: &Searcher) -> &crate::repetition::RepetitionTable { &s.repetition }
        pub fn rep_mut(s: &mut Searcher) -> &mut crate::repetition::RepetitionTable { &mut s.repetition }
        pub fn nodes(s: &Searcher) -> u64 { s.timer.nodes_searched }
        pub fn tt(s: &Searcher) -> &crate::transposition::TranspositionTable { &s.transposition_table }
        pub fn tt_mut(s: &mut Searcher) -> &mut crate::transposition::TranspositionTable { &mut s.transposition_table }
        pub fn killers(s: &Searcher) -> &crate::killer_moves::KillerMoves { &s.killer_moves }
        pub fn history(s: &Searcher) -> &crate::history::HistoryTable { &s.history }
        pub fn history_mut(s: &mut Searcher) -> &mut crate::history::HistoryTable { &mut s.history }
        pub fn killers_mut(s: &mut Searcher) -> &mut crate::killer_moves::KillerMoves { &mut s.killer_moves }
        pub fn quiesce(s: &mut Searcher, b: &Board, alpha: i32, beta: i32) -> i32 { s.search_until_quiet(b, alpha, beta) }
        pub fn is_rep_draw(s: &Searcher, b: &Board) -> bool { s.is_draw_by_repetition(b) }
        pub fn negamax_score(s: &mut Searcher, b: &Board, depth: u8, ply: u8, alpha: i32, beta: i32) -> (i32, Option<Move>) {
            let r = s.negamax(b, depth, ply, alpha, beta, SearchContext::new()); (r.score, r.best_move)
        }
        /// probe_transposition_table on a searcher whose table holds exactly `e` under the board's hash
        pub fn probe(s: &Searcher, b: &Board, depth: u8, alpha: i32, beta: i32) -> Option<(i32, Option<Move>)> {
            let mut c = SearchContext::new();
            s.probe_transposition_table(b, depth, alpha, beta, &mut c).map(|r| (r.score, r.best_move))
        }
        pub fn bound_of(s: &Searcher, score: i32, a0: i32, beta: i32) -> Bounds { s.determine_bound(score, a0, beta) }
        pub fn order(s: &Searcher, b: &Board, mv: &mut [Move], tt: Option<Move>, ply: u8) { s.order_moves(b, mv, tt, ply) }
        pub fn order_caps(s: &Searcher, mv: &mut [Move], b: &Board) { s.order_captures(mv, b) }
    }
}
pub mod uci {
    mod std {
        pub use ::std::*;
        pub mod io { pub use ::std::io::*; pub use crate::envmodel::stdin; }
        pub mod process { pub use ::std::process::*; pub use crate::envmodel::exit; }
    }
    include!(concat!(env!("FLOUNDER_SRC"), "/uci.rs"));
    pub mod vh {
        use super::*;
        pub fn command(f: &mut Flounder, c: &str) { f.handle_command(c) }
        pub fn go(f: &mut Flounder, parts: &[&str]) { f.handle_go_command(parts) }
        pub fn position(f: &mut Flounder, parts: &[&str]) { f.handle_position_command(parts) }
        pub fn newgame(f: &mut Flounder) { f.handle_ucinewgame_command() }
        pub fn move_time(f: &Flounder, parts: &[&str], i: usize) -> Option<Duration> { f.calculate_move_time(parts, i) }
        /// a Flounder of which only `board` is initialised (calculate_move_time reads nothing else); saves
        /// the 20 s of symbolic execution that Searcher::new() costs.  Natively a full engine is built.
        #[cfg(kani)]
        pub fn with_board_only<R>(b: Board, f: impl FnOnce(&Flounder) -> R) -> R {
            let mut m = core::mem::MaybeUninit::<Flounder>::uninit();
            unsafe { core::ptr::addr_of_mut!((*m.as_mut_ptr()).board).write(b); f(&*m.as_ptr()) }
        }
        #[cfg(not(kani))]
        pub fn with_board_only<R>(b: Board, f: impl FnOnce(&Flounder) -> R) -> R {
            let mut fl = Flounder::new(); fl.board = b; f(&fl)
        }
        pub fn board(f: &Flounder) -> &Board { &f.board }
        pub fn board_mut(f: &mut Flounder) -> &mut Board { &mut f.board }
        pub fn searcher(f: &Flounder) -> &Searcher { &f.searcher }
        pub fn searcher_mut(f: &mut Flounder) -> &mut Searcher { &mut f.searcher }
    }
}
pub mod hcommon;
pub mod h_tt;
pub mod h_search;
pub mod h_time;
pub mod h_loop;
pub mod h_search2;
pub mod h_uci;
pub mod gen { #[cfg(not(kani))] pub mod registry; }
#[cfg(not(kani))]
mod native;
#[cfg(not(kani))]
fn main() { native::main(); }
#[cfg(kani)]
fn main() {}
