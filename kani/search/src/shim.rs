// Association-list model of std::collections::HashMap<K,V> (capacity CAP, straight-line code,
// overflow = assertion failure so a too-small capacity is reported, never silently wrong).
pub const CAP: usize = 8;
pub struct HashMap<K: Copy + Eq, V: Copy> { pub used: [bool; CAP], pub keys: [Option<K>; CAP], pub vals: [Option<V>; CAP] }
macro_rules! each_slot { ($m:ident) => { $m!(0); $m!(1); $m!(2); $m!(3); $m!(4); $m!(5); $m!(6); $m!(7); }; }
impl<K: Copy + Eq, V: Copy> HashMap<K, V> {
    pub fn new() -> Self { Self { used: [false; CAP], keys: [None; CAP], vals: [None; CAP] } }
    pub fn get(&self, k: &K) -> Option<&V> {
        macro_rules! probe { ($i:expr) => { if self.used[$i] { if let Some(kk) = &self.keys[$i] { if *kk == *k { return self.vals[$i].as_ref(); } } } }; }
        each_slot!(probe);
        None
    }
    pub fn insert(&mut self, k: K, v: V) -> Option<V> {
        macro_rules! upd { ($i:expr) => { if self.used[$i] { if let Some(kk) = &self.keys[$i] { if *kk == k { let old = self.vals[$i]; self.vals[$i] = Some(v); return old; } } } }; }
        each_slot!(upd);
        macro_rules! put { ($i:expr) => { if !self.used[$i] { self.used[$i] = true; self.keys[$i] = Some(k); self.vals[$i] = Some(v); return None; } }; }
        each_slot!(put);
        panic!("shim HashMap capacity exceeded (bound of the model)");
    }
    pub fn len(&self) -> usize { let mut n = 0; macro_rules! cnt { ($i:expr) => { if self.used[$i] { n += 1; } }; } each_slot!(cnt); n }
    pub fn is_empty(&self) -> bool { self.len() == 0 }
    pub fn contains_key(&self, k: &K) -> bool { self.get(k).is_some() }
    pub fn clear(&mut self) { self.used = [false; CAP]; }
}
