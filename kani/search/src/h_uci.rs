// C03 (every go is answered by exactly one legal bestmove), C13 (determinism, ucinewgame),
// C09-R3 / C04-G (position command: resulting position and recorded game history).
// Real code: Flounder::{handle_go_command, handle_position_command, make_moves,
// handle_ucinewgame_command, calculate_move_time} and everything below them in search.rs, over the
// abstract game; printed lines are captured by the println!/print_info models.
use crate::absgame::board::Board;
use crate::absgame::*;
use crate::hcommon::*;
use crate::moves::Move;
use crate::out;
use crate::sym;
use crate::uci::vh as u;
use crate::uci::Flounder;

macro_rules! uci_harness {
    ($name:ident, $unwind:literal, $body:block) => {
        #[cfg_attr(kani, kani::proof)]
        #[cfg_attr(kani, kani::unwind($unwind))]
        #[cfg_attr(kani, kani::stub(crate::history::HistoryTable::age, crate::hcommon::stub_age))]
        #[cfg_attr(kani, kani::stub(crate::history::HistoryTable::record_cutoff, crate::hcommon::stub_record))]
        #[cfg_attr(kani, kani::stub(crate::search::Searcher::order_moves, crate::hcommon::stub_order_moves))]
        #[cfg_attr(kani, kani::stub(crate::search::Searcher::order_captures, crate::hcommon::stub_order_captures))]
        #[cfg_attr(kani, kani::stub(crate::moves::Move::to_algebraic, crate::hcommon::stub_to_algebraic))]
        #[cfg_attr(kani, kani::stub(core::time::Duration::from_millis, crate::hcommon::stub_from_millis))]
        pub fn $name() $body
    };
}

/// the move is one of the root's moves, with all of its attributes (a move of another position that merely
/// shares the index is not)
fn is_root_move(m: Move) -> bool { (m.to as usize) < br() && has_moves_at(0, 0) && m.to < g().nmoves[0] && m == mk_move(0, m.to as usize) }

/// exactly one bestmove line; a legal move of the root when it has one, 0000 only when it has none
fn check_one_bestmove() {
    let nb = out::count(out::K_BESTMOVE); let nn = out::count(out::K_BESTMOVE_NONE);
    vassert!(!unsafe { out::OUT.overflow }, "C03: more output lines than any correct answer has");
    vassert!(nb + nn == 1, "C03: go was not answered by exactly one bestmove line");
    if has_moves_at(0, 0) {
        vassert!(nn == 0, "C03: bestmove 0000 although the position has a legal move");
        let mut ok = false;
        macro_rules! l { ($i:expr) => { if $i < out::n() && out::line($i).kind == out::K_BESTMOVE { if let Some(m) = out::line($i).mv { if is_root_move(m) { ok = true; } } } }; }
        l!(0); l!(1); l!(2); l!(3); l!(4); l!(5); l!(6); l!(7); l!(8); l!(9); l!(10); l!(11);
        vassert!(nb == 0 || ok, "C03: bestmove is not a legal move of the position last set");
    } else {
        vassert!(nb == 0, "C03: a move was announced in a position without legal moves");
    }
}

/// `go` in one of its forms on an engine that may already have searched (warm tables), with the
/// deadline of a timed search falling after poll `stop_at` (concrete per harness).
///   form 0: go depth D (D = maxd, concrete per harness)      form 1: go movetime N
///   form 2: go wtime N btime N (any N: the reserve makes budgets of 0 ms possible)
fn c03_case(b: usize, l: usize, form: u8, stop_at: u32, warm: bool, maxd: u8) {
    setup_game(b, l);
    let mut f = Flounder::new();
    if warm {
        // an earlier completed search in the same process, of a SUCCESSOR position (concrete move: a symbolic choice
        // would make the tree level symbolic and the engine's recursion unbounded for the symbolic executor)
        sym::assume(has_moves_at(0, 0));
        let m0 = mk_move(0, 0); u::board_mut(&mut f).make_move(&m0);
        let wb = *u::board(&f);
        let (_s, _m) = u::searcher_mut(&mut f).find_best_move(&wb, 1, None);
        *u::board_mut(&mut f) = Board::root();
    }
    out::reset();
    unsafe { CLK.stop_at = stop_at; }
    // one-digit numbers: the abstract clock ignores the amount (the deadline is the poll index), and a longer
    // number would force the global unwinding bound up to str::parse's digit loop
    // concrete amounts: the abstract clock ignores them (the deadline is the poll index; amounts are C12's subject),
    // and a symbolic token makes `parse()` succeed only symbolically, which drags the unlimited depth-64 search of
    // the parse-error path into every case
    if form == 0 {
        // the depth is concrete per harness (a symbolic choice of the token would be a symbolic string)
        let ds = if maxd == 1 { "1" } else if maxd == 2 { "2" } else { "3" };
        u::go(&mut f, &["go", "depth", ds]);
    } else if form == 1 {
        u::go(&mut f, &["go", "movetime", "0"]);
    } else {
        u::go(&mut f, &["go", "wtime", "9", "btime", "9"]);   // below the reserve: a 0 ms budget
    }
    vnote!("go", "form={} stop_at={} warm={}", form, stop_at, warm);
    check_one_bestmove();
    vcover!(has_moves_at(0, 0), "root has legal moves");
    vcover!(!has_moves_at(0, 0), "root has no legal move");
    core::mem::forget(f);
}
macro_rules! c03_harness { ($name:ident, $unw:literal, $b:literal, $l:literal, $form:literal, $stop:literal, $warm:literal, $maxd:literal) => {
    uci_harness!($name, $unw, { c03_case($b, $l, $form, $stop, $warm, $maxd); });
}; }
include!("gen/h_c03_cases.rs");

// ------------------------------------------------------------------------------------------ C13
fn run_script_depth(depth: u8, warm_then_newgame: bool) {
    let mut f = Flounder::new();
    if warm_then_newgame {
        u::go(&mut f, &["go", "depth", "1"]);
        // whatever earlier searches and position commands can leave behind: a killer move, a history score,
        // a cached entry, recorded game history, a different current position (each written through the
        // engine's own data structures; the search model above never records history cutoffs itself)
        {
            let (a, b) = (sym::u8() as usize, sym::u8() as usize); sym::assume(a < 64 && b < 64);
            let v = sym::i32(); sym::assume(v != 0);
            let ply = sym::u8(); sym::assume(ply < 8);
            let km = mk_move(0, 0);
            let sm = u::searcher_mut(&mut f);
            crate::history::vh::set_cell(crate::search::vh::history_mut(sm), a, b, v);
            crate::search::vh::killers_mut(sm).store(km, ply);
            crate::search::vh::tt_mut(sm).store(sym::u64(), sym::i32(), Some(km), sym::u8(), crate::transposition::Bounds::Exact);
            crate::search::vh::rep_mut(sm).push(sym::u64());
            if has_moves_at(0, 0) { u::board_mut(&mut f).make_move(&km); }
        }
        u::command(&mut f, "ucinewgame");
        // field by field: everything a fresh engine has
        let s = u::searcher(&f);
        vassert!(crate::transposition::vh::map(crate::search::vh::tt(s)).len() == 0, "C13: transposition table not empty after ucinewgame");
        vassert!(crate::search::vh::rep_len(s) == 0, "C13: game history not empty after ucinewgame");
        let ply = sym::u8(); sym::assume(ply < 8);
        let k = crate::search::vh::killers(s).get_killers(ply);
        vassert!(k[0].is_none() && k[1].is_none(), "C13: killer moves survive ucinewgame");
        let a = sym::u8() as usize; let b = sym::u8() as usize; sym::assume(a < 64 && b < 64);
        vassert!(crate::history::vh::cell(crate::search::vh::history(s), a, b) == 0, "C13: history scores survive ucinewgame");
        vassert!(u::board(&f).node() == 0 && u::board(&f).lvl() == 0, "C13: board not reset by ucinewgame");
        out::reset();
    }
    let ds = if depth == 1 { "1" } else { "2" };
    u::command(&mut f, "position startpos");
    u::go(&mut f, &["go", "depth", ds]);
    core::mem::forget(f);
}
fn snapshot() -> ([out::Line; out::MAXLINES], usize) { let mut a = [out::Line { kind: 0, mv: None, depth: 0, score: 0, nodes: 0 }; out::MAXLINES]; let mut i = 0; while i < out::MAXLINES { a[i] = out::line(i); i += 1; } (a, out::n()) }
fn same_log(a: &([out::Line; out::MAXLINES], usize), b: &([out::Line; out::MAXLINES], usize)) -> bool {
    let mut ok = a.1 == b.1;
    macro_rules! l { ($i:expr) => { if $i < a.1 && $i < b.1 { let (x, y) = (a.0[$i], b.0[$i]);
        if x.kind != y.kind || x.depth != y.depth || x.score != y.score || x.nodes != y.nodes || x.mv != y.mv { ok = false; } } }; }
    l!(0); l!(1); l!(2); l!(3); l!(4); l!(5);
    ok
}
/// Same commands, two arbitrary (injective) hash-key assignments: identical output (scores, node
/// counts, pv moves, bestmove).  Move ordering is the REAL order_moves/order_captures replaced by the
/// identity order in both runs (an arbitrary permutation would differ between the runs by construction).
fn c13_keys(b: usize, l: usize, depth: u8) {
    setup_game(b, l);
    unsafe { HC.order_identity = true; }
    // second key set: injective as well
    macro_rules! h2 { ($n:expr) => { if $n < node_count() { let h = sym::u64(); sym::assume(h & 63 == $n as u64); unsafe { HASH2[$n] = h; } } }; }
    h2!(0); h2!(1); h2!(2); h2!(3); h2!(4); h2!(5); h2!(6); h2!(7); h2!(8); h2!(9); h2!(10); h2!(11); h2!(12); h2!(13); h2!(14);
    unsafe { CLK.use_hash2 = false; }
    out::reset();
    run_script_depth(depth, false);
    let first = snapshot();
    unsafe { CLK.use_hash2 = true; }
    out::reset();
    run_script_depth(depth, false);
    let second = snapshot();
    vassert!(first.1 >= 1, "C13: no output at all");
    vassert!(same_log(&first, &second), "C13: output of a depth-limited search depends on the hash keys drawn at start-up");
    vcover!(first.1 >= 2 && has_moves_at(0, 0), "info line and bestmove with a move");
}
/// ucinewgame alone (no searches): whatever earlier searches and position commands can leave behind is gone -
/// every field equals a freshly started engine's (quick-tier version of c13_newgame_*).
fn c13_newgame_fields() {
    setup_game(2, 1);
    unsafe { HC.order_identity = true; }
    let mut f = Flounder::new();
    {
        let (a, b) = (sym::u8() as usize, sym::u8() as usize); sym::assume(a < 64 && b < 64);
        let v = sym::i32(); sym::assume(v != 0);
        let ply = sym::u8(); sym::assume(ply < 8);
        let km = mk_move(0, 0);
        let sm = u::searcher_mut(&mut f);
        crate::history::vh::set_cell(crate::search::vh::history_mut(sm), a, b, v);
        crate::search::vh::killers_mut(sm).store(km, ply);
        crate::search::vh::tt_mut(sm).store(sym::u64(), sym::i32(), Some(km), sym::u8(), crate::transposition::Bounds::Exact);
        crate::search::vh::rep_mut(sm).push(sym::u64());
        u::board_mut(&mut f).make_move(&km);
    }
    u::command(&mut f, "ucinewgame");
    let s = u::searcher(&f);
    vassert!(crate::transposition::vh::map(crate::search::vh::tt(s)).len() == 0, "C13: transposition table not empty after ucinewgame");
    vassert!(crate::search::vh::rep_len(s) == 0, "C13: game history not empty after ucinewgame");
    let ply = sym::u8(); sym::assume(ply < 8);
    let k = crate::search::vh::killers(s).get_killers(ply);
    vassert!(k[0].is_none() && k[1].is_none(), "C13: killer moves survive ucinewgame");
    let a = sym::u8() as usize; let b = sym::u8() as usize; sym::assume(a < 64 && b < 64);
    vassert!(crate::history::vh::cell(crate::search::vh::history(s), a, b) == 0, "C13: history scores survive ucinewgame");
    vassert!(u::board(&f).node() == 0 && u::board(&f).lvl() == 0, "C13: board not reset by ucinewgame");
    vcover!(ply == 3 && a == 5, "a later killer ply and history row are inspected");
    core::mem::forget(f);
}
uci_harness!(c13_newgame_state, 20, { c13_newgame_fields(); });
/// After ucinewgame the engine's state and its next answer equal a fresh engine's.
fn c13_newgame(b: usize, l: usize, depth: u8) {
    setup_game(b, l);
    unsafe { HC.order_identity = true; }
    out::reset();
    run_script_depth(depth, false);
    let fresh = snapshot();
    out::reset();
    run_script_depth(depth, true);
    let after = snapshot();
    vassert!(same_log(&fresh, &after), "C13: after ucinewgame the engine answers differently from a freshly started one");
    vcover!(fresh.1 >= 2 && has_moves_at(0, 0), "info line and bestmove with a move");
}
macro_rules! det_harness { ($name:ident, $unwind:literal, $body:block) => { uci_harness!($name, $unwind, { $body }); }; }
det_harness!(c13_keys_d1_b1, 20, { c13_keys(1, 1, 1); });
det_harness!(c13_keys_d1_b2, 20, { c13_keys(2, 1, 1); });
det_harness!(c13_keys_d1_b2_q1, 20, { c13_keys(2, 2, 1); });
det_harness!(c13_keys_d2_b2, 20, { c13_keys(2, 2, 2); });
det_harness!(c13_newgame_d1_b2, 20, { c13_newgame(2, 1, 1); });
det_harness!(c13_newgame_d1_b2_q1, 20, { c13_newgame(2, 2, 1); });

// ------------------------------------------------------------------------------------------ C09-R3 / C04-G
const MOVE_TOKENS: [&str; 3] = ["m0", "m1", "m2"];
/// `position startpos [moves t1 .. tK]` (K concrete per harness, tokens symbolic among the legal
/// moves' names) after an earlier, unrelated position command: the board is the node reached by
/// that path, and the game history is exactly the positions passed through before it, in order.
fn position_case(k: usize, fen_form: bool) {
    setup_game(2, 2);
    unsafe { HC.order_identity = true; }
    let mut f = Flounder::new();
    // an earlier position command of another game (must leave nothing behind)
    if sym::bool() && has_moves_at(0, 0) && g().nmoves[0] > 1 { u::command(&mut f, "position startpos moves m1"); }
    let mut node = 0usize; let mut lvl = 0usize;
    let mut toks = [""; 2]; let mut want_hist = [0u64; 2];
    let mut i = 0;
    while i < k {
        let j = sym::u8(); sym::assume((j as usize) < br() && has_moves_at(node, lvl) && j < g().nmoves[node]);
        toks[i] = MOVE_TOKENS[j as usize];
        want_hist[i] = g().hash[node];
        node = child(node, j as usize); lvl += 1;
        i += 1;
    }
    if fen_form {
        if k == 0 { u::position(&mut f, &["position", "fen", "f1", "f2", "f3", "f4", "f5", "f6"]); }
        else if k == 1 { u::position(&mut f, &["position", "fen", "f1", "f2", "f3", "f4", "f5", "f6", "moves", toks[0]]); }
        else { u::position(&mut f, &["position", "fen", "f1", "f2", "f3", "f4", "f5", "f6", "moves", toks[0], toks[1]]); }
    } else {
        if k == 0 { u::position(&mut f, &["position", "startpos"]); }
        else if k == 1 { u::position(&mut f, &["position", "startpos", "moves", toks[0]]); }
        else { u::position(&mut f, &["position", "startpos", "moves", toks[0], toks[1]]); }
    }
    vnote!("position", "k={} fen_form={} tokens={:?} expected node={}", k, fen_form, &toks[..k], node);
    let b = u::board(&f);
    vassert!(b.node() == node && b.lvl() == lvl, "C04: position after the move list is not the one reached by playing those moves");
    let expect_white = g().white_root == (lvl % 2 == 0);
    vassert!((b.active_color() == crate::pieces::Color::White) == expect_white, "C04: side to move wrong after the move list");
    let hist = crate::repetition::vh::raw(crate::search::vh::rep(u::searcher(&f)));
    vassert!(hist.len() == k, "C09: recorded game history is not exactly the positions before the current one");
    if hist.len() == k {
        if k >= 1 { vassert!(hist[0] == want_hist[0], "C09: recorded game history differs from the positions played through"); }
        if k >= 2 { vassert!(hist[1] == want_hist[1], "C09: recorded game history differs from the positions played through"); }
    }
    vcover!(node == node_count() - 1 || k < 2, "last node of the tree reached");
    core::mem::forget(f);
}
macro_rules! pos_harness { ($name:ident, $k:literal, $fen:literal) => { det_harness!($name, 20, { position_case($k, $fen); }); }; }
pos_harness!(c09_position_k0, 0, false); pos_harness!(c09_position_k1, 1, false); pos_harness!(c09_position_k2, 2, false);
pos_harness!(c09_position_fen_k2, 2, true);

/// End to end: after `position startpos moves a b` where the final position occurred twice before
/// (history given by two earlier plies of an abstract game whose hashes repeat), `go depth 1` from the
/// predecessor scores the repeating move 0.  Abstractly: history [h(c), h(c)] is recorded by the engine
/// itself through make_moves; here the tree's node 1 and node 3 and ... cannot repeat (injective hashes),
/// so the end-to-end clause is the conjunction of c09_position_* (history recorded) and
/// c09_repetition_in_search (history used); no separate harness.
pub fn c09_composition_note() {}
