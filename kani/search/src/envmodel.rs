// Models of the process environment used by uci.rs: standard input, process exit.
pub const MAXSCRIPT: usize = 6;
pub static mut SCRIPT: [&'static str; MAXSCRIPT] = [""; MAXSCRIPT];
pub static mut SCRIPT_LEN: usize = 0;
pub static mut SCRIPT_POS: usize = 0;
pub static mut READS_AFTER_EOF: u32 = 0;
pub static mut EXIT_CODE: Option<i32> = None;
/// when set, the exit model runs the C16 harness's final assertions just before the path ends
/// (a plain flag, not a function pointer: CBMC's function-pointer removal produced spurious dealloc failures)
pub static mut AT_EXIT_C16: bool = false;
pub struct Stdin;
pub struct ReadErr;
pub fn stdin() -> Stdin { Stdin }
impl Stdin {
    /// POSIX: at end of input read_line returns Ok(0), forever.
    /// (the error type is a unit struct: std::io::Error's drop glue made CBMC report spurious deallocations;
    /// the engine only distinguishes Ok(0) / Ok(n) / Err(_))
    pub fn read_line(&self, buf: &mut String) -> Result<usize, ReadErr> {
        unsafe {
            if SCRIPT_POS < SCRIPT_LEN {
                let l = SCRIPT[SCRIPT_POS]; SCRIPT_POS += 1;
                buf.push_str(l); buf.push('\n');
                Ok(l.len() + 1)
            } else {
                READS_AFTER_EOF += 1;
                if READS_AFTER_EOF > 1 {
                    crate::envmodel::spin_detected();
                }
                Ok(0)
            }
        }
    }
}
pub fn reset(script: &[&'static str]) {
    unsafe {
        SCRIPT_LEN = script.len(); SCRIPT_POS = 0; READS_AFTER_EOF = 0; EXIT_CODE = None; AT_EXIT_C16 = false;
        let mut i = 0; while i < MAXSCRIPT { SCRIPT[i] = if i < script.len() { script[i] } else { "" }; i += 1; }
    }
}
#[cfg(kani)]
pub fn end_path() -> ! { kani::assume(false); loop {} }
#[cfg(not(kani))]
pub fn end_path() -> ! { std::panic::panic_any(EndOfPath) }
pub struct EndOfPath;
pub fn spin_detected() {
    vassert!(false, "C16: engine reads standard input again after end of input instead of terminating (busy loop at EOF)");
    end_path();
}
pub fn exit(code: i32) -> ! {
    unsafe { EXIT_CODE = Some(code); if AT_EXIT_C16 { crate::h_loop::final_checks(); } }
    end_path()
}
