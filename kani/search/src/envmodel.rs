// Models of the process environment used by uci.rs: standard input, process exit.
pub const MAXSCRIPT: usize = 6;
/// the script's lines are supplied by the harness through `crate::h_loop::script_line(i)` (a static array of
/// &str fat pointers made CBMC report invalid memcpy sources)
// NOTE (Kani 0.68): a `pub static mut` scalar whose initial bytes equal those of a constant the compiled code
// refers to by address (e.g. the zero capacity inside `String::new()`) was observed to SHARE that constant's
// object: writing 1 to a zero-initialised `pub static mut usize` made every later `String::new()` report invalid
// deallocations.  All harness-global scalars therefore start from distinctive sentinel values and are set
// explicitly by the reset functions before use.
/// when set, the exit model runs the C16 harness's final assertions just before the path ends
/// (a plain flag, not a function pointer: CBMC's function-pointer removal produced spurious dealloc failures)
pub struct Env { pub magic: u64, pub script_len: usize, pub script_pos: usize, pub reads_after_eof: u32, pub exit_code: Option<i32>, pub at_exit_c16: bool }
pub static mut ENV: Env = Env { magic: 0x5EED_E0E0_0BAD_F00D, script_len: 0, script_pos: 0, reads_after_eof: 0, exit_code: None, at_exit_c16: false };
pub struct Stdin;
pub struct ReadErr;
pub fn stdin() -> Stdin { Stdin }
impl Stdin {
    /// POSIX: at end of input read_line returns Ok(0), forever.
    /// (the error type is a unit struct: std::io::Error's drop glue made CBMC report spurious deallocations;
    /// the engine only distinguishes Ok(0) / Ok(n) / Err(_))
    pub fn read_line(&self, buf: &mut String) -> Result<usize, ReadErr> {
        unsafe {
            if ENV.script_pos < ENV.script_len {
                let n = crate::h_loop::push_script_line(ENV.script_pos, buf); ENV.script_pos += 1;
                buf.push('\n');
                Ok(n + 1)
            } else {
                ENV.reads_after_eof += 1;
                if ENV.reads_after_eof > 1 {
                    crate::envmodel::spin_detected();
                }
                Ok(0)
            }
        }
    }
}
pub fn reset(nlines: usize) {
    unsafe { ENV.script_len = nlines; ENV.script_pos = 0; ENV.reads_after_eof = 0; ENV.exit_code = None; ENV.at_exit_c16 = false; }
}
#[cfg(kani)]
pub fn end_path() -> ! { kani::assume(false); loop {} }
#[cfg(not(kani))]
pub fn end_path() -> ! { std::panic::panic_any(EndOfPath) }
pub struct EndOfPath;
pub fn spin_detected() {
    vassert!(false, "C16: engine reads standard input again after end of input instead of terminating (busy loop at EOF)");
    end_path();
}
pub fn exit(code: i32) -> ! {
    unsafe { ENV.exit_code = Some(code); if ENV.at_exit_c16 { crate::h_loop::final_checks(); } }
    end_path()
}
