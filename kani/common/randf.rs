// Model of the `rand` crate surface the engine uses (environment model, see DESIGN §2.2).
// Under Kani every draw is an arbitrary value (so "for every key set drawn at start-up" is
// literal); natively it is a splitmix64 stream seeded from VERIF_SEED (distinct 64-bit keys).
pub trait Draw { fn draw() -> Self; }
#[cfg(kani)]
impl Draw for u64 { fn draw() -> u64 { kani::any() } }
#[cfg(not(kani))]
impl Draw for u64 {
    fn draw() -> u64 {
        use std::sync::atomic::{AtomicU64, Ordering};
        static S: AtomicU64 = AtomicU64::new(0);
        let mut z = S.fetch_add(0x9E3779B97F4A7C15, Ordering::Relaxed)
            .wrapping_add(0x9E3779B97F4A7C15)
            .wrapping_add(std::env::var("VERIF_SEED").ok().and_then(|s| s.parse::<u64>().ok()).unwrap_or(0).wrapping_mul(0xD1B54A32D192ED03));
        z = (z ^ (z >> 30)).wrapping_mul(0xBF58476D1CE4E5B9);
        z = (z ^ (z >> 27)).wrapping_mul(0x94D049BB133111EB);
        z ^ (z >> 31)
    }
}
impl Draw for u32 { fn draw() -> u32 { <u64 as Draw>::draw() as u32 } }
pub struct ThreadRng;
impl Default for ThreadRng { fn default() -> Self { ThreadRng } }
pub fn thread_rng() -> ThreadRng { ThreadRng }
pub fn random<T: Draw>() -> T { T::draw() }
pub trait Rng { fn gen<T: Draw>(&mut self) -> T { T::draw() } }
impl Rng for ThreadRng {}
pub trait RngCore { fn next_u64(&mut self) -> u64 { <u64 as Draw>::draw() } fn next_u32(&mut self) -> u32 { <u32 as Draw>::draw() } }
impl RngCore for ThreadRng {}
pub mod prelude { pub use super::{thread_rng, random, Rng, RngCore, ThreadRng}; }
pub mod rngs { pub use super::ThreadRng; }
