// Model of the `rand` crate surface the engine uses (environment model, see DESIGN §2.2).
// Under Kani every draw is an arbitrary value (so "for every key set drawn at start-up" is
// literal); natively it is a splitmix64 stream seeded from VERIF_SEED (distinct 64-bit keys).
pub trait Draw { fn draw() -> Self; }
/// Harness control of the draw sequence (C11 "every feature has its own key"): mode 1 records the draws of one
/// construction (taken from the symbolic input stream), mode 2 replays them with draw number `d` XOR-ed with `delta`.
/// Mode 0 (default) is the plain model.  One struct with a sentinel field (see search/src/envmodel.rs).
pub const MAXDRAWS: usize = 900;
pub struct RandCtl { pub magic: u64, pub mode: u8, pub n: usize, pub d: usize, pub delta: u64, pub draws: [u64; MAXDRAWS] }
pub static mut RF: RandCtl = RandCtl { magic: 0x5EED_4A4D_0BAD_F00D, mode: 0, n: 0, d: usize::MAX, delta: 0, draws: [0; MAXDRAWS] };
fn controlled() -> Option<u64> {
    unsafe {
        if RF.mode == 0 { return None; }
        let i = RF.n; RF.n += 1;
        if RF.mode == 3 { return Some(i as u64 + 1); }   // counting draws: 1, 2, 3, ... (pairwise different, concrete)
        if RF.mode == 1 { let v = crate::sym::u64(); if i < MAXDRAWS { RF.draws[i] = v; } Some(v) }
        else { let v = if i < MAXDRAWS { RF.draws[i] } else { 0 }; Some(if i == RF.d { v ^ RF.delta } else { v }) }
    }
}
#[cfg(kani)]
impl Draw for u64 { fn draw() -> u64 { match controlled() { Some(v) => v, None => kani::any() } } }
#[cfg(not(kani))]
impl Draw for u64 {
    fn draw() -> u64 {
        if let Some(v) = controlled() { return v; }
        use std::sync::atomic::{AtomicU64, Ordering};
        static S: AtomicU64 = AtomicU64::new(0);
        let mut z = S.fetch_add(0x9E3779B97F4A7C15, Ordering::Relaxed)
            .wrapping_add(0x9E3779B97F4A7C15)
            .wrapping_add(std::env::var("VERIF_SEED").ok().and_then(|s| s.parse::<u64>().ok()).unwrap_or(0).wrapping_mul(0xD1B54A32D192ED03));
        z = (z ^ (z >> 30)).wrapping_mul(0xBF58476D1CE4E5B9);
        z = (z ^ (z >> 27)).wrapping_mul(0x94D049BB133111EB);
        z ^ (z >> 31)
    }
}
impl Draw for u32 { fn draw() -> u32 { <u64 as Draw>::draw() as u32 } }
pub struct ThreadRng;
impl Default for ThreadRng { fn default() -> Self { ThreadRng } }
pub fn thread_rng() -> ThreadRng { ThreadRng }
pub fn random<T: Draw>() -> T { T::draw() }
pub trait Rng { fn gen<T: Draw>(&mut self) -> T { T::draw() } }
impl Rng for ThreadRng {}
pub trait RngCore { fn next_u64(&mut self) -> u64 { <u64 as Draw>::draw() } fn next_u32(&mut self) -> u32 { <u32 as Draw>::draw() } }
impl RngCore for ThreadRng {}
pub mod prelude { pub use super::{thread_rng, random, Rng, RngCore, ThreadRng}; }
pub mod rngs { pub use super::ThreadRng; }
