// Fixed-capacity model of std::vec::Vec<T: Copy> (only the API the engine uses on move lists).
// 64 covers every position the generator harnesses build (<= 4 men: at most 8 + 27 + 27 moves); a larger list fails the
// capacity assertion (reported, never silently truncated).  Symbolic-index writes cost grows with the capacity.
pub const VCAP: usize = 64;
pub struct Vec<T: Copy> { buf: [core::mem::MaybeUninit<T>; VCAP], len: usize }
impl<T: Copy> Vec<T> {
    pub fn new() -> Self { Self { buf: [core::mem::MaybeUninit::uninit(); VCAP], len: 0 } }
    pub fn with_capacity(_n: usize) -> Self { Self::new() }
    pub fn push(&mut self, v: T) {
        assert!(self.len < VCAP, "shim Vec capacity exceeded (bound of the model)");
        self.buf[self.len] = core::mem::MaybeUninit::new(v);
        self.len += 1;
    }
    pub fn retain<F: FnMut(&T) -> bool>(&mut self, mut f: F) {
        let n = self.len; let mut w = 0; let mut r = 0;
        while r < n {
            let x = unsafe { self.buf[r].assume_init() };
            if f(&x) { self.buf[w] = core::mem::MaybeUninit::new(x); w += 1; }
            r += 1;
        }
        self.len = w;
    }
}
impl<T: Copy> core::ops::Deref for Vec<T> {
    type Target = [T];
    fn deref(&self) -> &[T] { unsafe { core::slice::from_raw_parts(self.buf.as_ptr() as *const T, self.len) } }
}
impl<T: Copy> core::ops::DerefMut for Vec<T> {
    fn deref_mut(&mut self) -> &mut [T] { unsafe { core::slice::from_raw_parts_mut(self.buf.as_mut_ptr() as *mut T, self.len) } }
}
pub struct IntoIter<T: Copy> { v: Vec<T>, i: usize }
impl<T: Copy> Iterator for IntoIter<T> {
    type Item = T;
    fn next(&mut self) -> Option<T> { if self.i < self.v.len { let x = unsafe { self.v.buf[self.i].assume_init() }; self.i += 1; Some(x) } else { None } }
}
impl<T: Copy> IntoIterator for Vec<T> { type Item = T; type IntoIter = IntoIter<T>; fn into_iter(self) -> IntoIter<T> { IntoIter { v: self, i: 0 } } }
