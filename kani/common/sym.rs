// Symbolic-input source shared by all harness crates.
//
// Under Kani every `sym::*()` call is a fresh `kani::any()`; `vassert!` is `assert!`,
// `vcover!` is `kani::cover!`.  In a native build the same harness bodies run on a
// concrete byte stream (the vectors printed by Kani's concrete playback, in call order):
// `sym::*()` pops the next vector, `assume(false)` marks the replay as "assumption
// violated" (the stream does not describe a valid input) and `vassert!` records failures
// instead of aborting.  This is what lets a counterexample found by the solver be re-run,
// unchanged, against the natively compiled real code (real Vec, real magic tables).

#[cfg(kani)]
mod imp {
    #[inline(always)] pub fn u8() -> u8 { kani::any() }
    #[inline(always)] pub fn u16() -> u16 { kani::any() }
    #[inline(always)] pub fn u32() -> u32 { kani::any() }
    #[inline(always)] pub fn u64() -> u64 { kani::any() }
    #[inline(always)] pub fn i32() -> i32 { kani::any() }
    #[inline(always)] pub fn bool() -> bool { kani::any() }
    #[inline(always)] pub fn assume(c: bool) { kani::assume(c) }
    #[inline(always)] pub fn note(_k: &str, _v: String) {}
    #[inline(always)] pub fn native() -> bool { false }
}

#[cfg(not(kani))]
mod imp {
    use std::cell::RefCell;
    pub struct Replay {
        pub vals: Vec<Vec<u8>>,
        pub pos: usize,
        pub assumption_violated: bool,
        pub underflow: bool,
        pub width_mismatch: bool,
        pub failures: Vec<String>,
        pub covers: Vec<String>,
        pub notes: Vec<(String, String)>,
    }
    thread_local! {
        pub static R: RefCell<Replay> = RefCell::new(Replay { vals: Vec::new(), pos: 0, assumption_violated: false,
            underflow: false, width_mismatch: false, failures: Vec::new(), covers: Vec::new(), notes: Vec::new() });
    }
    fn pop(n: usize) -> u64 {
        R.with(|r| {
            let mut r = r.borrow_mut();
            if r.pos >= r.vals.len() { r.underflow = true; return 0; }
            let v = r.vals[r.pos].clone();
            r.pos += 1;
            if v.len() != n { r.width_mismatch = true; }
            let mut x = 0u64;
            for (i, b) in v.iter().enumerate().take(8) { x |= (*b as u64) << (8 * i); }
            x
        })
    }
    pub fn u8() -> u8 { pop(1) as u8 }
    pub fn u16() -> u16 { pop(2) as u16 }
    pub fn u32() -> u32 { pop(4) as u32 }
    pub fn u64() -> u64 { pop(8) }
    pub fn i32() -> i32 { pop(4) as u32 as i32 }
    pub fn bool() -> bool { pop(1) != 0 }
    pub fn assume(c: bool) { if !c { R.with(|r| r.borrow_mut().assumption_violated = true); } }
    pub fn note(k: &str, v: String) { R.with(|r| r.borrow_mut().notes.push((k.to_string(), v))); }
    pub fn native() -> bool { true }
    pub fn fail(msg: &str) { R.with(|r| r.borrow_mut().failures.push(msg.to_string())); }
    pub fn cover(msg: &str) { R.with(|r| r.borrow_mut().covers.push(msg.to_string())); }
    pub fn load(vals: Vec<Vec<u8>>) {
        R.with(|r| { let mut r = r.borrow_mut(); r.vals = vals; r.pos = 0; r.assumption_violated = false; r.underflow = false;
            r.width_mismatch = false; r.failures.clear(); r.covers.clear(); r.notes.clear(); });
    }
    /// (assumption_violated, underflow|width mismatch, failures, covers, notes)
    pub fn result() -> (bool, bool, Vec<String>, Vec<String>, Vec<(String, String)>) {
        R.with(|r| { let r = r.borrow(); (r.assumption_violated, r.underflow || r.width_mismatch, r.failures.clone(), r.covers.clone(), r.notes.clone()) })
    }
    pub fn violated() -> bool { R.with(|r| r.borrow().assumption_violated) }
}

pub use imp::*;

#[cfg(kani)]

macro_rules! vassert { ($c:expr, $m:literal) => { assert!($c, $m) }; }
#[cfg(not(kani))]

macro_rules! vassert { ($c:expr, $m:literal) => { if !$crate::sym::violated() && !($c) { $crate::sym::fail($m); } }; }

#[cfg(kani)]

macro_rules! vcover { ($c:expr, $m:literal) => { kani::cover!($c, $m) }; }
#[cfg(not(kani))]

macro_rules! vcover { ($c:expr, $m:literal) => { if !$crate::sym::violated() && ($c) { $crate::sym::cover($m); } }; }

#[cfg(kani)]
macro_rules! vnote { ($($t:tt)*) => {}; }
#[cfg(not(kani))]
macro_rules! vnote { ($k:expr, $($t:tt)*) => { $crate::sym::note($k, format!($($t)*)) }; }
