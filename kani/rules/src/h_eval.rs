//! C11 (Zobrist hash is the XOR of the keys of the position's features) and C14 (static evaluation).
use crate::board::{Board, Castle};
use crate::common::*;
use crate::pieces::{Color, Piece};
use crate::spec::*;
use crate::sym;
use crate::zobrist::ZobristTable;

// ------------------------------------------------------------------------------------------ C11 (layout independent)
/// No two different features share a key.  Uses only ZobristTable::new() (through the rand model) and hash(): the
/// draws are the concrete sequence 1, 2, 3, ... (pairwise different), so two single-feature boards hash equally iff
/// their features read the same key cell - and a shared cell makes every pair of positions that differ in exactly
/// those two features collide under EVERY key set.  Features f != g are symbolic (man x colour x square, castling
/// right, en-passant square, white to move).
fn no_shared_key(with_men: bool) {
    use crate::randf::RF;
    let (f, g) = (any_feature(), any_feature());
    sym::assume(f != g);
    // without men the placement is the concrete empty board: only the flag part of hash() stays symbolic (seconds);
    // with men the 12 layer loops run on symbolic bitboards under the unwinding bound of 66 that new() needs (28 M clauses)
    if !with_men { sym::assume(f.kind != 0 && g.kind != 0); }
    vnote!("features", "f=({},{},{},{}) g=({},{},{},{}) (kind 0 man: colour, kind, square; 1 right: colour, side; 2 ep square; 3 white to move)", f.kind, f.c, f.t, f.s, g.kind, g.c, g.t, g.s);
    unsafe { RF.mode = 3; RF.n = 0; }
    let z = ZobristTable::new();
    unsafe { RF.mode = 0; }
    let (bf, bg) = if with_men { (feature_board(f), feature_board(g)) } else { (flag_board(f), flag_board(g)) };
    let (hf, hg) = (z.hash(&bf), z.hash(&bg));
    vassert!(hf != 0 && hg != 0, "C11: a feature does not contribute to the hash at all");
    vassert!(hf != hg, "C11: two different features share a key (positions differing in exactly those two features collide for every key set)");
    vcover!(f.kind == 1 && g.kind == 1, "two castling rights");
    if with_men { vcover!(f.kind == 0 && g.kind == 2 && f.s == g.s, "a man and the en-passant key of the same square"); }
    core::mem::forget(z);
}
/// castling rights, en-passant squares, side to move (69 features, all pairs)
#[cfg_attr(kani, kani::proof)]
#[cfg_attr(kani, kani::unwind(66))]
pub fn c11_no_shared_key_flags() { no_shared_key(false); }
/// all 837 features incl. every man x colour x square (thorough)
#[cfg_attr(kani, kani::proof)]
#[cfg_attr(kani, kani::unwind(66))]
pub fn c11_no_shared_key_all() { no_shared_key(true); }

/// NOT REGISTERED in any check: symbolic execution did not finish in 48 min (two constructions with 837 draws each
/// under the unwinding bound of 66 that `new()` needs).  Kept as the sketch of a representation-independent companion
/// (uses only ZobristTable::new() through the rand model, and hash()):
/// every feature has its OWN key.  Two tables are built from the same draw sequence except that draw number d
/// (symbolic) is changed in the second; a feature "uses" draw d iff its single-feature hash differs between the two
/// tables.  No draw may be used by two different features (a shared key would make positions that differ in exactly
/// those two features collide under every key set).
#[derive(Copy, Clone, PartialEq, Eq)]
struct Feature { kind: u8, c: u8, t: u8, s: u8 }   // kind 0 man (colour c, kind t, square s), 1 castling right (colour c, side t), 2 en-passant square s, 3 white to move
fn any_feature() -> Feature {
    let kind = sym::u8(); let c = sym::u8(); let t = sym::u8(); let s = sym::u8();
    sym::assume(kind < 4 && c < 2 && s < 64 && ((kind == 0 && t < 6) || (kind == 1 && t < 2) || (kind >= 2 && t == 0)));
    sym::assume(kind == 0 || kind == 2 || s == 0); sym::assume(kind <= 1 || c == 0);
    Feature { kind, c, t, s }
}
/// board of a flag feature (castling right, en-passant square, side to move) on the LITERALLY empty placement
fn flag_board(f: Feature) -> Board {
    let r = |c: u8, t: u8| f.kind == 1 && f.c == c && f.t == t;
    let mut b = Board::default();
    b.position = crate::board::vh::position_from_raw([0; 6], [0; 2]);
    b.active_color = if f.kind == 3 { Color::White } else { Color::Black };
    b.castling_ability = Castle::new(r(0, 0), r(0, 1), r(1, 0), r(1, 1));
    b.en_passant_target = if f.kind == 2 { Some(f.s) } else { None };
    b
}
fn feature_board(f: Feature) -> Board {
    let mut pc = [0u64; 6]; let mut col = [0u64; 2];
    if f.kind == 0 { pc[f.t as usize] = bit(f.s); col[f.c as usize] = bit(f.s); }
    let r = |c: u8, t: u8| f.kind == 1 && f.c == c && f.t == t;
    // (for flag features pc/col stay the literal zero arrays: CBMC folds the piece loops away)
    let mut b = Board::default();
    b.position = crate::board::vh::position_from_raw(pc, col);
    b.active_color = if f.kind == 3 { Color::White } else { Color::Black };
    b.castling_ability = Castle::new(r(0, 0), r(0, 1), r(1, 0), r(1, 1));
    b.en_passant_target = if f.kind == 2 { Some(f.s) } else { None };
    b
}
#[cfg_attr(kani, kani::proof)]
#[cfg_attr(kani, kani::unwind(66))]
pub fn c11_own_key_per_feature() {
    use crate::randf::RF;
    let (f, g) = (any_feature(), any_feature());
    sym::assume(f != g);
    vnote!("features", "f=({},{},{},{}) g=({},{},{},{})", f.kind, f.c, f.t, f.s, g.kind, g.c, g.t, g.s);
    let d = sym::u16() as usize; let delta = sym::u64();
    sym::assume(d < crate::randf::MAXDRAWS && delta != 0);
    unsafe { RF.mode = 1; RF.n = 0; }
    let z1 = ZobristTable::new();
    let ndraws = unsafe { RF.n };
    unsafe { RF.mode = 2; RF.n = 0; RF.d = d; RF.delta = delta; }
    let z2 = ZobristTable::new();
    unsafe { RF.mode = 0; }
    vassert!(ndraws <= crate::randf::MAXDRAWS, "C11: more key draws than the harness records");
    let (bf, bg) = (feature_board(f), feature_board(g));
    let f_uses = z1.hash(&bf) != z2.hash(&bf);
    let g_uses = z1.hash(&bg) != z2.hash(&bg);
    vassert!(!(f_uses && g_uses), "C11: two different features share a key (positions differing in exactly those two features collide for every key set)");
    vcover!(f_uses, "the changed draw is feature f's key");
    vcover!(f.kind == 1 && g.kind == 1 && !f_uses && !g_uses, "two castling rights, unrelated draw");
    core::mem::forget(z1); core::mem::forget(z2);
}

// ------------------------------------------------------------------------------------------ C14
use crate::eval::vh as ev;
#[cfg(kani)]
use crate::gen::eval_consts::{MAX_END, MAX_OPEN, MIN_END, MIN_OPEN};
#[cfg(not(kani))]
fn table_range(piece: usize, endgame: bool) -> (i32, i32) {
    let mut lo = i32::MAX; let mut hi = i32::MIN;
    for s in 0..64 { let v = if endgame { ev::endgame(piece, s) } else { ev::opening(piece, s) }; lo = lo.min(v); hi = hi.max(v); }
    (lo, hi)
}
fn ranges(piece: usize) -> (i32, i32, i32, i32) {
    #[cfg(kani)]
    { (MIN_OPEN[piece], MAX_OPEN[piece], MIN_END[piece], MAX_END[piece]) }
    #[cfg(not(kani))]
    { let (a, b) = table_range(piece, false); let (c, d) = table_range(piece, true); (a, b, c, d) }
}
/// The dumped per-kind value ranges really bound every table entry (symbolic kind and square).
#[cfg_attr(kani, kani::proof)]
#[cfg_attr(kani, kani::unwind(3))]
pub fn c14_table_ranges() {
    let t = sym::u8(); sym::assume(t < 6);
    let s = sym::u8(); sym::assume(s < 64);
    let (lo, hi, le, he) = ranges(t as usize);
    let o = ev::opening(t as usize, s as usize); let e = ev::endgame(t as usize, s as usize);
    vassert!(lo <= o && o <= hi && le <= e && e <= he, "C14: piece-square entry outside the recorded range");
    vassert!(ev::phase_inc(t as usize) >= 0 && ev::phase_inc(t as usize) <= 4, "C14: phase increment outside 0..4");
    vcover!(o == hi, "maximum attained");
}

fn layer_board(t: usize, wbb: u64, bbb: u64, white_to_move: bool) -> Board {
    let mut pc = [0u64; 6]; pc[t] = wbb | bbb;
    let mut b = Board::default();
    b.position = crate::board::vh::position_from_raw(pc, [wbb, bbb]);
    b.active_color = if white_to_move { Color::White } else { Color::Black };
    b
}
fn any_layer(cap: usize) -> u64 {
    let mut bb = 0u64;
    macro_rules! man { ($i:expr) => { if $i < cap && sym::bool() { let s = sym::u8(); sym::assume(s < 64); bb |= bit(s); } }; }
    man!(0); man!(1); man!(2); man!(3); man!(4); man!(5);
    bb
}
/// One piece kind, at most `cap` men per side on any squares: the contribution is (own side) - (other
/// side), each side's part lies within count x [min,max] of the tables, swapping the colour argument
/// negates the scores and keeps the phase, and the vertically mirrored, colour-swapped board gives the
/// identical contribution.  (eval_piece_type reads only the two bitboards of its kind - that the whole
/// evaluate depends on nothing else is c14_whole_*men / c14_compose.)
fn piece_kind(t: usize, cap: usize) {
    let wbb = any_layer(cap); let bbb = any_layer(cap);
    sym::assume(wbb & bbb == 0);
    let white = sym::bool();
    let b = layer_board(t, wbb, bbb, white);
    vnote!("layer", "kind={} white={:#x} black={:#x} white_to_move={}", t, wbb, bbb, white);
    let (nw, nb) = (wbb.count_ones(), bbb.count_ones());
    let piece = piece_of(t as u8);
    let (o, e, g) = ev::piece_contrib(b.active_color, piece, &b);
    // additivity over the two sides
    let own = layer_board(t, if white { wbb } else { 0 }, if white { 0 } else { bbb }, white);
    let other = layer_board(t, if white { 0 } else { wbb }, if white { bbb } else { 0 }, white);
    let (o1, e1, g1) = ev::piece_contrib(b.active_color, piece, &own);
    let (o2, e2, g2) = ev::piece_contrib(b.active_color, piece, &other);
    vassert!(o == o1 + o2 && e == e1 + e2 && g == g1 + g2, "C14: a piece kind's contribution is not own part plus opponent part");
    let (lo, hi, le, he) = ranges(t);
    let (n_own, n_other) = if white { (nw as i32, nb as i32) } else { (nb as i32, nw as i32) };
    vassert!(n_own * lo <= o1 && o1 <= n_own * hi && n_own * le <= e1 && e1 <= n_own * he, "C14: own material outside count x table range");
    vassert!(-n_other * hi <= o2 && o2 <= -n_other * lo && -n_other * he <= e2 && e2 <= -n_other * le, "C14: opponent material outside count x table range");
    vassert!(g == (n_own + n_other) * ev::phase_inc(t), "C14: game phase is not increment x number of pieces");
    // side to move swapped: exact negation
    let (on, en, gn) = ev::piece_contrib(!b.active_color, piece, &b);
    vassert!(on == -o && en == -e && gn == g, "C14: swapping the side to move does not negate the contribution");
    // mirrored board with colours exchanged: identical
    let m = layer_board(t, bbb.swap_bytes(), wbb.swap_bytes(), !white);
    let (om, em, gm) = ev::piece_contrib(m.active_color, piece, &m);
    vassert!(om == o && em == e && gm == g, "C14: mirrored position with colours exchanged is scored differently");
    vcover!(nw as usize == cap && nb == 1, "cap-many white, one black");
    vcover!(!white && o > 0, "black to move and ahead in this kind");
}
macro_rules! kind_harness { ($name:ident, $t:literal, $cap:literal, $unw:literal) => {
    #[cfg_attr(kani, kani::proof)]
    #[cfg_attr(kani, kani::unwind($unw))]
    pub fn $name() { piece_kind($t, $cap); }
}; }
// at most `cap` men of the kind per side (the loop body is the same for every further man)
kind_harness!(c14_kind_pawn_1, 0, 1, 3); kind_harness!(c14_kind_knight_1, 1, 1, 3); kind_harness!(c14_kind_bishop_1, 2, 1, 3);
kind_harness!(c14_kind_rook_1, 3, 1, 3); kind_harness!(c14_kind_queen_1, 4, 1, 3);
kind_harness!(c14_kind_pawn_2, 0, 2, 4); kind_harness!(c14_kind_knight_2, 1, 2, 4); kind_harness!(c14_kind_bishop_2, 2, 2, 4);
kind_harness!(c14_kind_rook_2, 3, 2, 4); kind_harness!(c14_kind_queen_2, 4, 2, 4); kind_harness!(c14_kind_king_1, 5, 1, 3);
kind_harness!(c14_kind_pawn_3, 0, 3, 5); kind_harness!(c14_kind_knight_3, 1, 3, 5); kind_harness!(c14_kind_bishop_3, 2, 3, 5);
kind_harness!(c14_kind_rook_3, 3, 3, 5); kind_harness!(c14_kind_queen_3, 4, 3, 5);
kind_harness!(c14_kind_pawn_4, 0, 4, 6); kind_harness!(c14_kind_knight_4, 1, 4, 6); kind_harness!(c14_kind_queen_4, 4, 4, 6);

/// Composition: the real `evaluate` with `eval_piece_type` replaced by "add this kind's
/// contribution" (symbolic, constrained exactly by what the per-kind harnesses prove, for every
/// piece census a position can have): pure (independent of the evaluator's previous state),
/// exact negation under side-to-move swap, and |score| < 20000 < 32767.
pub static mut CONTRIB: [(i32, i32, i32); 6] = [(0, 0, 0); 6];
pub struct EvState { pub magic: u64, pub stub_calls: u32, pub native_stub: bool }
/// (struct with a sentinel field: Kani 0.68 was seen to share a zero-initialised pub static scalar with a constant)
pub static mut EVS: EvState = EvState { magic: 0x5EED_E7A1_0BAD_F00D, stub_calls: 0, native_stub: false };
fn any_census_contrib() {
    // counts per side and kind; a side has one king, at most 8 pawns and at most 15 non-king men,
    // and officers beyond the initial 2/2/2/1 come from promoted pawns
    let mut cnt = [[0i32; 6]; 2];
    let mut c = 0;
    while c < 2 {
        let mut extra = 0; let mut t = 0;
        while t < 5 {
            let n = sym::u8() as i32; sym::assume(n <= 10);
            cnt[c][t] = n;
            let init = if t == 0 { 8 } else if t == 4 { 1 } else { 2 };
            if t > 0 && n > init { extra += n - init; }
            t += 1;
        }
        cnt[c][5] = 1;
        sym::assume(cnt[c][0] <= 8 && extra <= 8 - cnt[c][0]);
        c += 1;
    }
    let mut t = 0;
    while t < 6 {
        let (lo, hi, le, he) = ranges(t);
        // white-relative contribution of kind t: own part - other part, each within count x range
        let a = sym::i32(); let b = sym::i32(); let ae = sym::i32(); let be = sym::i32();
        sym::assume(cnt[0][t] * lo <= a && a <= cnt[0][t] * hi && cnt[1][t] * lo <= b && b <= cnt[1][t] * hi);
        sym::assume(cnt[0][t] * le <= ae && ae <= cnt[0][t] * he && cnt[1][t] * le <= be && be <= cnt[1][t] * he);
        unsafe { CONTRIB[t] = (a - b, ae - be, (cnt[0][t] + cnt[1][t]) * ev::phase_inc(t)); }
        t += 1;
    }
}
#[cfg_attr(kani, kani::proof)]
#[cfg_attr(kani, kani::unwind(8))]
#[cfg_attr(kani, kani::stub(crate::eval::Evaluator::eval_piece_type, crate::eval::vh::stub_eval_piece_type))]
pub fn c14_compose() {
    unsafe { EVS.native_stub = true; }   // native replay: the patched copy of eval.rs dispatches eval_piece_type to the same model
    any_census_contrib();
    let mut wb = Board::default(); wb.active_color = Color::White;
    let mut bb = wb; bb.active_color = Color::Black;
    let mut e1 = ev::with_state(sym::i32(), sym::i32(), sym::i32());
    let mut e2 = ev::with_state(0, 0, 0);
    unsafe { EVS.stub_calls = 0; }
    let s1 = e1.evaluate(&wb);
    vassert!(unsafe { EVS.stub_calls } == 6, "C14: evaluate does not visit each of the six piece kinds exactly once");
    let s2 = e2.evaluate(&wb);
    vassert!(s1 == s2, "C14: score depends on what the evaluator computed before");
    let s3 = e1.evaluate(&bb);
    vassert!(s3 == -s1, "C14: swapping the side to move does not negate the score");
    vassert!(s1 > -20000 && s1 < 20000, "C14: static score outside +-20000 (must stay well inside the +-32767 window)");
    let s4 = e1.evaluate(&wb);
    vassert!(s4 == s1, "C14: repeated evaluation gives a different score");
    unsafe { EVS.native_stub = false; }
    vcover!(s1 > 9000, "queens-heavy census reaches a large score");
    vcover!(s1 == 0, "balanced");
}

/// The real `evaluate`, end to end, on boards with two kings and up to `extra` further men: pure,
/// negated by a side-to-move swap, invariant under mirroring with colours exchanged, bounded.
fn whole_small(extra: usize, mode: u8) {
    let b = small_board(extra);
    let mut e1 = ev::with_state(sym::i32(), sym::i32(), sym::i32());
    let s1 = e1.evaluate(&b);
    if mode == 0 {
        let mut e2 = ev::with_state(0, 0, 0);
        vassert!(e2.evaluate(&b) == s1, "C14: score depends on what the evaluator computed before");
        vassert!(s1 > -20000 && s1 < 20000, "C14: static score outside +-20000");
    } else if mode == 1 {
        let mut f = b; f.active_color = !b.active_color;
        vassert!(e1.evaluate(&f) == -s1, "C14: swapping the side to move does not negate the score");
    } else {
        let m = mirror_board(&b);
        vassert!(e1.evaluate(&m) == s1, "C14: mirrored position with colours exchanged is scored differently");
    }
    vcover!(s1 > 900, "a queen up");
}
macro_rules! whole_harness { ($name:ident, $n:literal, $mode:literal, $unw:literal) => {
    #[cfg_attr(kani, kani::proof)]
    #[cfg_attr(kani, kani::unwind($unw))]
    pub fn $name() { whole_small($n, $mode); }
}; }
whole_harness!(c14_whole_3men_pure, 1, 0, 4); whole_harness!(c14_whole_3men_negate, 1, 1, 4); whole_harness!(c14_whole_3men_mirror, 1, 2, 4);
whole_harness!(c14_whole_4men_pure, 2, 0, 5); whole_harness!(c14_whole_4men_negate, 2, 1, 5); whole_harness!(c14_whole_4men_mirror, 2, 2, 5);
