//! Shared harness helpers: symbolic boards/moves, the move generator under test, slider stubs.
use crate::board::vh::position_from_raw;
use crate::board::{Board, Castle};
use crate::lookup::LookupTable;
use crate::magic::Magic;
use crate::move_gen::MoveGenerator;
use crate::moves::{Move, MoveType};
use crate::pieces::{Color, Piece};
use crate::spec::*;
use crate::sym;

/// Kani stubs for the magic lookups: first-blocker ray walk. Justified per square by C10
/// (assume-guarantee); in native replays the real magic tables are used instead.
pub fn stub_rook(_m: &Magic, sq: u8, occ: u64) -> u64 { ray_attacks(sq, occ, false) }
pub fn stub_bishop(_m: &Magic, sq: u8, occ: u64) -> u64 { ray_attacks(sq, occ, true) }

#[cfg(kani)]
pub fn mk_movegen() -> MoveGenerator {
    use crate::gen::tables_small as t;
    MoveGenerator { lookup: LookupTable {
        knight_lookup: t::KNIGHT, king_lookup: t::KING,
        magic_table: crate::magic::vh::empty(),
        inclusive_between_lookup: t::BETWEEN_INC, exclusive_between_lookup: t::BETWEEN_EXC,
    } }
}
#[cfg(not(kani))]
pub fn mk_movegen() -> MoveGenerator { MoveGenerator::new() }

pub fn piece_of(x: u8) -> Piece {
    match x { 0 => Piece::Pawn, 1 => Piece::Knight, 2 => Piece::Bishop, 3 => Piece::Rook, 4 => Piece::Queen, _ => Piece::King }
}
pub fn mt_of(x: u8) -> MoveType {
    match x { 0 => MoveType::Quiet, 1 => MoveType::Capture, 2 => MoveType::EnPassant, 3 => MoveType::Castle, _ => MoveType::Promotion }
}
pub fn any_piece() -> Piece { let x = sym::u8(); sym::assume(x < 6); piece_of(x) }
pub fn any_mt() -> MoveType { let x = sym::u8(); sym::assume(x < 5); mt_of(x) }
pub fn any_move() -> Move {
    let from = sym::u8(); let to = sym::u8();
    sym::assume(from < 64 && to < 64);
    let m = Move::new(from, to, any_piece(), any_mt());
    vnote!("move", "{}", format_move(&m));
    m
}
pub fn any_move_of(mt: MoveType) -> Move {
    let from = sym::u8(); let to = sym::u8();
    sym::assume(from < 64 && to < 64);
    let m = Move::new(from, to, any_piece(), mt);
    vnote!("move", "{}", format_move(&m));
    m
}
pub fn any_board() -> Board {
    let pieces = [sym::u64(), sym::u64(), sym::u64(), sym::u64(), sym::u64(), sym::u64()];
    let colors = [sym::u64(), sym::u64()];
    let ep = sym::u8();
    sym::assume(ep <= 64);
    let white = sym::bool();
    let b = Board {
        position: position_from_raw(pieces, colors),
        active_color: if white { Color::White } else { Color::Black },
        castling_ability: Castle::new(sym::bool(), sym::bool(), sym::bool(), sym::bool()),
        en_passant_target: if ep == 64 { None } else { Some(ep) },
        halfmove_clock: sym::u8() as _,
        fullmove_counter: sym::u8() as _,
    };
    vnote!("fen", "{}", fen_of(&from_board(&b)));
    b
}
/// A board built constructively: two kings and up to `extra` further men, each of symbolic kind
/// (pawn..queen), colour and square (all squares distinct, pawns off the back ranks); side to move,
/// rights and en-passant square arbitrary (not necessarily consistent with the placement).
/// Straight-line code: needs no loop unwinding.
pub fn small_board(extra: usize) -> Board { small_board_men(extra).0 }
/// the same, also returning the list of men: (present, colour index, kind index, square); entries 0 and 1 are the kings
pub fn small_board_men(extra: usize) -> (Board, [(bool, usize, usize, u8); 8]) {
    let mut men = [(false, 0usize, 0usize, 0u8); 8];
    let mut pc = [0u64; 6]; let mut col = [0u64; 2];
    let wk = sym::u8(); let bk = sym::u8();
    sym::assume(wk < 64 && bk < 64 && wk != bk);
    pc[5] = bit(wk) | bit(bk); col[0] = bit(wk); col[1] = bit(bk);
    men[0] = (true, 0, 5, wk); men[1] = (true, 1, 5, bk);
    macro_rules! man { ($i:expr) => { if $i < extra {
        if sym::bool() {
            let t = sym::u8(); let s = sym::u8(); let w = sym::bool();
            sym::assume(t < 5 && s < 64 && (col[0] | col[1]) & bit(s) == 0 && (t != 0 || (s >= 8 && s < 56)));
            pc[t as usize] |= bit(s); col[if w { 0 } else { 1 }] |= bit(s);
            men[2 + $i] = (true, if w { 0 } else { 1 }, t as usize, s);
        }
    } }; }
    man!(0); man!(1); man!(2); man!(3); man!(4); man!(5);
    let ep = sym::u8(); sym::assume(ep <= 64);
    let b = Board {
        position: position_from_raw(pc, col),
        active_color: if sym::bool() { Color::White } else { Color::Black },
        castling_ability: Castle::new(sym::bool(), sym::bool(), sym::bool(), sym::bool()),
        en_passant_target: if ep == 64 { None } else { Some(ep) },
        halfmove_clock: sym::u8() as _, fullmove_counter: sym::u8() as _,
    };
    vnote!("fen", "{}", fen_of(&from_board(&b)));
    (b, men)
}
pub fn mirror_board(b: &Board) -> Board {
    let p = from_board(b);
    Board {
        position: position_from_raw([p.pc[0].swap_bytes(), p.pc[1].swap_bytes(), p.pc[2].swap_bytes(), p.pc[3].swap_bytes(), p.pc[4].swap_bytes(), p.pc[5].swap_bytes()], [p.col[1].swap_bytes(), p.col[0].swap_bytes()]),
        active_color: !b.active_color, castling_ability: Castle::new(p.cr[2], p.cr[3], p.cr[0], p.cr[1]),
        en_passant_target: match b.en_passant_target { Some(s) => Some(s ^ 56), None => None }, halfmove_clock: b.halfmove_clock, fullmove_counter: b.fullmove_counter }
}

#[cfg(kani)]
pub fn format_move(_m: &Move) -> String { String::new() }
#[cfg(kani)]
pub fn fen_of(_p: &Pos) -> String { String::new() }

#[cfg(not(kani))]
pub fn format_move(m: &Move) -> String {
    let sq = |s: u8| format!("{}{}", (b'a' + s % 8) as char, (b'1' + (s / 8) % 8) as char);
    format!("{}{} piece={:?} type={:?}", sq(m.from), sq(m.to), m.piece_type, m.move_type)
}
/// FEN of a (possibly inconsistent) position; overlapping bitboards are rendered by first match.
#[cfg(not(kani))]
pub fn fen_of(p: &Pos) -> String {
    let mut s = String::new();
    for r in (0..8).rev() {
        let mut empty = 0;
        for f in 0..8 {
            let sq = r * 8 + f; let b = 1u64 << sq;
            let pc = piece_at(p, sq as u8);
            if pc == 6 || (p.col[0] | p.col[1]) & b == 0 { empty += 1; continue; }
            if empty > 0 { s.push_str(&empty.to_string()); empty = 0; }
            let ch = ['p', 'n', 'b', 'r', 'q', 'k'][pc];
            s.push(if p.col[0] & b != 0 { ch.to_ascii_uppercase() } else { ch });
        }
        if empty > 0 { s.push_str(&empty.to_string()); }
        if r > 0 { s.push('/'); }
    }
    s.push(' '); s.push(if p.stm == 0 { 'w' } else { 'b' }); s.push(' ');
    let mut c = String::new();
    if p.cr[0] { c.push('K'); } if p.cr[1] { c.push('Q'); } if p.cr[2] { c.push('k'); } if p.cr[3] { c.push('q'); }
    if c.is_empty() { c.push('-'); }
    s.push_str(&c); s.push(' ');
    if p.ep < 64 { s.push((b'a' + p.ep % 8) as char); s.push((b'1' + p.ep / 8) as char); } else { s.push('-'); }
    s.push_str(" 0 1");
    s
}
