//! C02 — Board::make_move / clone_with_move against the rules model.
use crate::board::Board;
use crate::common::*;
use crate::moves::{Move, MoveType};
use crate::pieces::{Color, Piece};
use crate::spec::*;
use crate::sym;

fn same_pos(n: &Pos, e: &Pos) -> bool {
    n.pc[0] == e.pc[0] && n.pc[1] == e.pc[1] && n.pc[2] == e.pc[2] && n.pc[3] == e.pc[3] && n.pc[4] == e.pc[4] && n.pc[5] == e.pc[5]
        && n.col[0] == e.col[0] && n.col[1] == e.col[1]
}

/// Every valid position x every pseudo-legal move (superset of legal): all eight bitboards,
/// side to move, four rights and en-passant target equal the rules model's successor.
#[cfg_attr(kani, kani::proof)]
#[cfg_attr(kani, kani::unwind(9))]
pub fn c02_make_move_matches_spec() {
    let b = any_board();
    let p = from_board(&b);
    sym::assume(valid(&p));
    let m = any_move();
    sym::assume(pseudo_legal(&p, &m));
    let nb = b.clone_with_move(&m);
    let n = from_board(&nb);
    let e = apply(&p, &m);
    vassert!(same_pos(&n, &e), "C02: piece placement after move differs from the rules");
    vassert!(n.stm == e.stm, "C02: side to move after move differs from the rules");
    vassert!(n.cr[0] == e.cr[0] && n.cr[1] == e.cr[1] && n.cr[2] == e.cr[2] && n.cr[3] == e.cr[3], "C02: castling rights after move differ from the rules");
    vassert!(n.ep == e.ep, "C02: en-passant target after move differs from the rules");
    vcover!(m.move_type == MoveType::Castle, "castle");
    vcover!(m.move_type == MoveType::EnPassant, "en passant");
    vcover!(m.move_type == MoveType::Promotion && e.cr[2] != p.cr[2], "promotion capturing a rook that still had its right");
    vcover!(m.move_type == MoveType::Capture && m.piece_type == Piece::Rook && e.cr[1] != p.cr[1] && e.cr[3] != p.cr[3], "rook a1 takes rook a8, both lose a right");
    vcover!(e.ep != 64, "double push sets ep");
}

/// Inductive step for histories: a legal move from a valid position yields a valid position
/// (one piece of one colour per square, one king each, flags consistent, mover not in check).
/// Case split by move type (5 harnesses) so each query stays small.
fn successor_is_valid(mt: MoveType) {
    let b = any_board();
    let p = from_board(&b);
    sym::assume(valid(&p));
    let m = any_move_of(mt);
    sym::assume(legal(&p, &m));
    let nb = b.clone_with_move(&m);
    let n = from_board(&nb);
    vassert!(structurally_valid(&n), "C02: successor not internally consistent (overlap / king count / pawn on back rank)");
    vassert!(rights_consistent(&n), "C02: successor keeps a castling right without king/rook at home");
    vassert!(ep_consistent(&n), "C02: successor en-passant square inconsistent with placement");
    vassert!(!in_check(&n, p.stm), "C02: mover left in check");
    vassert!(n.stm == 1 - p.stm, "C02: side to move not flipped");
    vcover!(p.stm == 1, "black moves");
    vcover!(p.stm == 0 && in_check(&n, 1), "white move gives check");
}
#[cfg_attr(kani, kani::proof)]
#[cfg_attr(kani, kani::unwind(9))]
pub fn c02_succ_valid_quiet() { successor_is_valid(MoveType::Quiet); }
#[cfg_attr(kani, kani::proof)]
#[cfg_attr(kani, kani::unwind(9))]
pub fn c02_succ_valid_capture() { successor_is_valid(MoveType::Capture); }
#[cfg_attr(kani, kani::proof)]
#[cfg_attr(kani, kani::unwind(9))]
pub fn c02_succ_valid_ep() { successor_is_valid(MoveType::EnPassant); }
#[cfg_attr(kani, kani::proof)]
#[cfg_attr(kani, kani::unwind(9))]
pub fn c02_succ_valid_castle() { successor_is_valid(MoveType::Castle); }
#[cfg_attr(kani, kani::proof)]
#[cfg_attr(kani, kani::unwind(9))]
pub fn c02_succ_valid_promotion() { successor_is_valid(MoveType::Promotion); }

/// get_piece_at / get_color_at agree with the bitboards on consistent positions.
#[cfg_attr(kani, kani::proof)]
#[cfg_attr(kani, kani::unwind(9))]
pub fn c02_piece_and_color_at() {
    let b = any_board();
    let p = from_board(&b);
    sym::assume(structurally_valid(&p));
    let sq = sym::u8(); sym::assume(sq < 64);
    let want = piece_at(&p, sq);
    let got = match b.get_piece_at(sq) { Some(x) => pidx(x), None => 6 };
    vassert!(got == want, "C02: get_piece_at disagrees with bitboards");
    let wc = if p.col[0] & bit(sq) != 0 { 0 } else if p.col[1] & bit(sq) != 0 { 1 } else { 2 };
    let gc = match b.get_color_at(sq) { Some(Color::White) => 0, Some(Color::Black) => 1, None => 2 };
    vassert!(gc == wc, "C02: get_color_at disagrees with bitboards");
    vassert!((got == 6) == (gc == 2), "C02: piece/colour presence mismatch");
    vcover!(got == 5 && gc == 1, "black king found");
}
