//! C11, field-reading part: hash(board) is the XOR of one own key per feature, for ALL key sets.
//! This module reads ZobristTable's private fields (through zobrist::vh) and is compiled only with the cargo feature
//! `zobrist_fields` (on by default).  If an edit changes the private layout of ZobristTable the runner rebuilds the
//! crate without the feature: these harnesses are then INCONCLUSIVE, every other check of the crate still runs, and
//! the layout-independent harness h_eval::c11_no_shared_key still decides "no two features share a key".
use crate::board::{Board, Castle};
use crate::common::*;
use crate::pieces::{Color, Piece};
use crate::spec::*;
use crate::sym;
use crate::zobrist::ZobristTable;

macro_rules! k8 { () => { [sym::u64(), sym::u64(), sym::u64(), sym::u64(), sym::u64(), sym::u64(), sym::u64(), sym::u64()] }; }
fn k64() -> [u64; 64] {
    let a: [[u64; 8]; 8] = [k8!(), k8!(), k8!(), k8!(), k8!(), k8!(), k8!(), k8!()];
    unsafe { core::mem::transmute(a) }
}
/// Every key set the start-up draw can produce: 768 + 1 + 4 + 64 arbitrary 64-bit keys.
pub fn any_zobrist() -> ZobristTable {
    let tk = [[k64(), k64(), k64(), k64(), k64(), k64()], [k64(), k64(), k64(), k64(), k64(), k64()]];
    crate::zobrist::vh::from_keys(tk, sym::u64(), [[sym::u64(), sym::u64()], [sym::u64(), sym::u64()]], k64())
}
/// Independent reference: XOR over the features present, square by square.
fn ref_hash(z: &ZobristTable, p: &Pos) -> u64 {
    use crate::zobrist::vh::*;
    let mut h = 0u64;
    macro_rules! sq { ($s:expr) => { {
        let b = bit($s);
        macro_rules! layer { ($c:expr, $t:expr) => { if p.col[$c] & p.pc[$t] & b != 0 { h ^= piece_key(z, $c, $t, $s as usize); } }; }
        layer!(0, 0); layer!(0, 1); layer!(0, 2); layer!(0, 3); layer!(0, 4); layer!(0, 5);
        layer!(1, 0); layer!(1, 1); layer!(1, 2); layer!(1, 3); layer!(1, 4); layer!(1, 5);
    } }; }
    macro_rules! row { ($r:expr) => { sq!($r * 8); sq!($r * 8 + 1); sq!($r * 8 + 2); sq!($r * 8 + 3); sq!($r * 8 + 4); sq!($r * 8 + 5); sq!($r * 8 + 6); sq!($r * 8 + 7); }; }
    row!(0u8); row!(1u8); row!(2u8); row!(3u8); row!(4u8); row!(5u8); row!(6u8); row!(7u8);
    if p.cr[0] { h ^= castle_key(z, 0, 0); } if p.cr[1] { h ^= castle_key(z, 0, 1); }
    if p.cr[2] { h ^= castle_key(z, 1, 0); } if p.cr[3] { h ^= castle_key(z, 1, 1); }
    if p.ep < 64 { h ^= ep_key(z, p.ep as usize); }
    if p.stm == 0 { h ^= stm_key(z); }
    h
}
/// hash(b) == XOR of the keys of the features present, for every key set and every board with two
/// kings and at most `extra` further men (any kinds, colours, squares), any side to move, rights and
/// en-passant square.  Everything in the property follows from this one equation: no dependence on
/// counters or history, a single-feature change flips exactly that feature's key, every feature has
/// its own table cell.  (Full-width boards were tried first: the XOR-reordering proof did not finish.)
fn hash_is_feature_xor(extra: usize) {
    let z = any_zobrist();
    let (b, men) = small_board_men(extra);
    let p = from_board(&b);
    let h = z.hash(&b);
    // reference: one key per man present, one per right held, the ep square's, the side-to-move key for white
    let mut want = 0u64;
    {
        use crate::zobrist::vh::*;
        macro_rules! man { ($i:expr) => { if men[$i].0 { want ^= piece_key(&z, men[$i].1, men[$i].2, men[$i].3 as usize); } }; }
        man!(0); man!(1); man!(2); man!(3); man!(4); man!(5); man!(6); man!(7);
        if p.cr[0] { want ^= castle_key(&z, 0, 0); } if p.cr[1] { want ^= castle_key(&z, 0, 1); }
        if p.cr[2] { want ^= castle_key(&z, 1, 0); } if p.cr[3] { want ^= castle_key(&z, 1, 1); }
        if p.ep < 64 { want ^= ep_key(&z, p.ep as usize); }
        if p.stm == 0 { want ^= stm_key(&z); }
    }
    vassert!(h == want, "C11: hash is not the XOR of the keys of the position's features");
    if sym::native() { vassert!(h == ref_hash(&z, &p), "C11: hash is not the XOR of the keys of the position's features (square-by-square reference)"); }
    // counters have no influence (same placement and flags, other counters)
    let mut b2 = b;
    b2.halfmove_clock = sym::u8() as _; b2.fullmove_counter = sym::u8() as _;
    vassert!(z.hash(&b2) == h, "C11: hash depends on the move counters");
    vcover!(p.ep < 64 && p.cr[3] && p.stm == 1, "ep square, black queen-side right, black to move");
    vcover!(occ(&p).count_ones() == 2 + extra as u32, "all men present");
    core::mem::forget(z);
}
macro_rules! hash_harness { ($name:ident, $n:literal, $unw:literal) => {
    #[cfg_attr(kani, kani::proof)]
    #[cfg_attr(kani, kani::unwind($unw))]
    pub fn $name() { hash_is_feature_xor($n); }
}; }
hash_harness!(c11_hash_formula_2men, 0, 8);
hash_harness!(c11_hash_formula_3men, 1, 8);
hash_harness!(c11_hash_formula_4men, 2, 8);
hash_harness!(c11_hash_formula_6men, 4, 8);

