//! Validation of the oracle and of the harness plumbing against the repository's own test inputs
//! (translator validation a la Serval): for the six perft positions of src/move_gen.rs's tests, to
//! depth 2, the rules model spec.rs must agree with the real engine (real Vec, real magic tables) on
//! the SET of legal moves of every node, on the successor of every move, on the check test and on
//! validity - and the node counts must be the ones the repository's perft tests assert for depth 1/2.
use crate::board::Board;
use crate::common::{mt_of, piece_of};
use crate::move_gen::MoveGenerator;
use crate::moves::Move;
use crate::spec::*;

const FENS: [(&str, usize, usize); 6] = [
    ("rnbqkbnr/pppppppp/8/8/8/8/PPPPPPPP/RNBQKBNR w KQkq - 0 1", 20, 400),
    ("r3k2r/p1ppqpb1/bn2pnp1/3PN3/1p2P3/2N2Q1p/PPPBBPPP/R3K2R w KQkq - 0 1", 48, 2039),
    ("8/2p5/3p4/KP5r/1R3p1k/8/4P1P1/8 w - - 0 1", 14, 191),
    ("r3k2r/Pppp1ppp/1b3nbN/nP6/BBP1P3/q4N2/Pp1P2PP/R2Q1RK1 w kq - 0 1", 6, 264),
    ("rnbq1k1r/pp1Pbppp/2p5/8/2B5/8/PPP1NnPP/RNBQK2R w KQ - 1 8", 44, 1486),
    ("r4rk1/1pp1qppp/p1np1n2/2b1p1B1/2B1P1b1/P1NP1N2/1PP1QPPP/R4RK1 w - - 0 10", 46, 2079),
];
fn spec_moves(p: &Pos) -> Vec<Move> {
    let mut v = Vec::new();
    for from in 0..64u8 {
        let pc = piece_at(p, from);
        if pc == 6 { continue; }
        for to in 0..64u8 { for mt in 0..5u8 {
            if mt == 4 { for pr in 1..5u8 { let m = Move::new(from, to, piece_of(pr), mt_of(mt)); if legal(p, &m) { v.push(m); } } }
            else { let m = Move::new(from, to, piece_of(pc as u8), mt_of(mt)); if legal(p, &m) { v.push(m); } }
        } }
    }
    v
}
fn key(m: &Move) -> (u8, u8, usize, u8) { (m.from, m.to, pidx(m.piece_type), match m.move_type { crate::moves::MoveType::Quiet => 0, crate::moves::MoveType::Capture => 1, crate::moves::MoveType::EnPassant => 2, crate::moves::MoveType::Castle => 3, crate::moves::MoveType::Promotion => 4 }) }
fn walk(mg: &MoveGenerator, b: &Board, depth: usize, errs: &mut Vec<String>) -> usize {
    let p = from_board(b);
    if !valid(&p) { errs.push(format!("spec::valid rejects a position reached by the engine: {}", crate::common::fen_of(&p))); }
    if mg.is_in_check(b) != in_check(&p, p.stm) { errs.push(format!("check test differs: {}", crate::common::fen_of(&p))); }
    let mut e: Vec<_> = mg.generate_moves(b).iter().map(key).collect();
    let mut s: Vec<_> = spec_moves(&p).iter().map(key).collect();
    e.sort(); s.sort();
    if e != s { errs.push(format!("legal move sets differ at {}: engine {} spec {}", crate::common::fen_of(&p), e.len(), s.len())); }
    if depth == 0 { return 1; }
    let mut n = 0;
    for m in mg.generate_moves(b).iter() {
        let nb = b.clone_with_move(m);
        let want = apply(&p, m);
        if from_board(&nb) != want { errs.push(format!("successor differs after {:?} at {}", key(m), crate::common::fen_of(&p))); }
        n += if depth == 1 { 1 } else { walk(mg, &nb, depth - 1, errs) };
    }
    n
}
pub fn run() -> i32 {
    let mg = MoveGenerator::new();
    let mut errs = Vec::new();
    let mut nodes = 0;
    for (fen, d1, d2) in FENS.iter() {
        let b = Board::new(fen);
        let n1 = walk(&mg, &b, 1, &mut errs);
        let n2 = walk(&mg, &b, 2, &mut errs);
        if n1 != *d1 || n2 != *d2 { errs.push(format!("perft counts {} {} differ from the repository's {} {} for {}", n1, n2, d1, d2, fen)); }
        nodes += n2;
    }
    if errs.is_empty() { println!("selftest ok: rules model == engine on {} positions of the six perft trees (move sets, successors, check test, validity)", nodes + 6); 0 }
    else { for e in errs.iter().take(10) { println!("selftest FAIL: {}", e); } 1 }
}
