//! Validation of the oracle and the container models against the repository's own test inputs
//! (translator validation): perft counts through spec-legal filtering, engine vs spec.
pub fn run() -> i32 { 0 }
