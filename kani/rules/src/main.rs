//! Rules-layer harness crate: the engine's real sources are pulled in textually from
//! /repo/src on every build; child `vh` modules expose private items to the harnesses.
#![recursion_limit = "1024"]
#![allow(dead_code, unused_imports, unused_variables, unused_mut, unused_macros, non_snake_case, static_mut_refs)]

#[macro_use]
pub mod sym { include!("../../common/sym.rs"); }
pub mod randf { include!("../../common/randf.rs"); }
#[cfg(kani)]
pub mod shimvec { include!("../../common/shimvec.rs"); }

macro_rules! real_mod {
    ($name:ident, $file:literal) => {
        pub mod $name { include!(concat!(env!("FLOUNDER_SRC"), "/", $file)); }
    };
}
real_mod!(bitboard, "bitboard.rs");
real_mod!(killer_moves, "killer_moves.rs");
real_mod!(lookup, "lookup.rs");
real_mod!(moves, "moves.rs");
real_mod!(pieces, "pieces.rs");
real_mod!(repetition, "repetition.rs");
real_mod!(timer, "timer.rs");
real_mod!(transposition, "transposition.rs");
real_mod!(util, "util.rs");
real_mod!(history, "history.rs");
pub mod square { include!(concat!(env!("FLOUNDER_SRC"), "/square.rs")); }
pub mod magic {
    use crate::randf as rand;
    include!(concat!(env!("FLOUNDER_SRC"), "/magic.rs"));
    pub mod vh {
        use super::*;
        pub fn fields(m: &Magic) -> ([u64; 64], [u64; 64], [u64; 64], [u64; 64], &Vec<Vec<u64>>, &Vec<Vec<u64>>) {
            (m.rook_attack_masks, m.bishop_attack_masks, m.rook_magics, m.bishop_magics, &m.rook_attacks, &m.bishop_attacks)
        }
        pub fn empty() -> Magic {
            Magic { rook_attack_masks: [0; 64], bishop_attack_masks: [0; 64], rook_attacks: Vec::new(), bishop_attacks: Vec::new(), rook_magics: [0; 64], bishop_magics: [0; 64] }
        }
    }
}
pub mod eval {
    #[cfg(kani)]
    include!(concat!(env!("FLOUNDER_SRC"), "/eval.rs"));
    #[cfg(not(kani))]
    include!("gen/eval_native.rs");
    pub mod vh {
        use super::*;
        pub fn with_state(g: i32, o: i32, e: i32) -> Evaluator { Evaluator { gamephase: g, opening_score: o, endgame_score: e } }
        pub fn state(ev: &Evaluator) -> (i32, i32, i32) { (ev.opening_score, ev.endgame_score, ev.gamephase) }
        pub fn piece_contrib(color: Color, piece: Piece, b: &Board) -> (i32, i32, i32) {
            let mut ev = Evaluator { gamephase: 0, opening_score: 0, endgame_score: 0 };
            ev.eval_piece_type(color, piece, b);
            (ev.opening_score, ev.endgame_score, ev.gamephase)
        }
        pub fn opening(piece: usize, sq: usize) -> i32 { OPENING_TABLES[piece][sq] }
        pub fn endgame(piece: usize, sq: usize) -> i32 { ENDGAME_TABLES[piece][sq] }
        pub fn phase_inc(piece: usize) -> i32 { PHASE_INCREMENTS[piece] }
        /// model of eval_piece_type for the composition lemma: add the (white-relative) contribution the
        /// harness chose for this kind, negated when black is the side being scored
        pub fn stub_eval_piece_type(ev: &mut Evaluator, color: Color, piece: Piece, _b: &Board) {
            let (o, e, g) = unsafe { crate::h_eval::CONTRIB[piece.index()] };
            unsafe { crate::h_eval::EVS.stub_calls += 1; }
            if color == Color::White { ev.opening_score += o; ev.endgame_score += e; } else { ev.opening_score -= o; ev.endgame_score -= e; }
            ev.gamephase += g;
        }
    }
}
pub mod fen {
    include!(concat!(env!("FLOUNDER_SRC"), "/fen.rs"));
    pub mod vh {
        use super::*;
        pub fn halfmove(s: &str) -> u64 { parse_halfmove_clock(s) as u64 }
        pub fn fullmove(s: &str) -> u64 { parse_fullmove_counter(s) as u64 }
        pub fn placement(s: &str) -> Result<Position, String> { parse_piece_placement(s) }
        pub fn color(s: &str) -> Result<Color, String> { parse_active_color(s) }
        pub fn castling(s: &str) -> Result<Castle, String> { parse_castling_ability(s) }
        pub fn ep(s: &str) -> Result<Option<Square>, String> { parse_en_passant_target(s) }
    }
}
pub mod zobrist {
    use crate::randf as rand;
    include!(concat!(env!("FLOUNDER_SRC"), "/zobrist.rs"));
    #[cfg(feature = "zobrist_fields")]
    pub mod vh {
        use super::*;
        pub fn from_keys(table_keys: [[[u64; 64]; 6]; 2], w: u64, c: [[u64; 2]; 2], e: [u64; 64]) -> ZobristTable {
            ZobristTable { table_keys, white_to_move_key: w, castling_right_keys: c, en_passant_target_key: e }
        }
        pub fn piece_key(z: &ZobristTable, c: usize, p: usize, s: usize) -> u64 { z.table_keys[c][p][s] }
        pub fn stm_key(z: &ZobristTable) -> u64 { z.white_to_move_key }
        pub fn castle_key(z: &ZobristTable, c: usize, side: usize) -> u64 { z.castling_right_keys[c][side] }
        pub fn ep_key(z: &ZobristTable, s: usize) -> u64 { z.en_passant_target_key[s] }
    }
}
pub mod board {
    include!(concat!(env!("FLOUNDER_SRC"), "/board.rs"));
    pub mod vh {
        use super::*;
        pub fn position_from_raw(pieces: [u64; 6], colors: [u64; 2]) -> Position { Position { pieces, colors } }
        pub fn rights(c: &Castle) -> [bool; 4] { [c.white_king, c.white_queen, c.black_king, c.black_queen] }
    }
}
pub mod move_gen {
    #[cfg(kani)]
    use crate::shimvec::Vec;
    include!(concat!(env!("FLOUNDER_SRC"), "/move_gen.rs"));
    pub mod vh {
        use super::*;
        pub type MoveList = Vec<Move>;
        pub fn filter_one(mg: &MoveGenerator, board: &Board, mv: &Move) -> bool {
            let king_square = mg.king_square(board);
            let pinned_pieces = mg.get_pinned_pieces(board, king_square);
            let checkers = mg.attacks_to(board, king_square);
            mg.is_legal(board, mv, checkers, pinned_pieces, king_square)
        }
        pub fn pinned(mg: &MoveGenerator, board: &Board) -> u64 { mg.get_pinned_pieces(board, mg.king_square(board)) }
        pub fn gen_piece(mg: &MoveGenerator, board: &Board, piece: Piece) -> Vec<Move> {
            let mut v = Vec::new(); mg.generate_pseudo_legal_moves(board, piece, &mut v); v
        }
        pub fn gen_pawns(mg: &MoveGenerator, board: &Board) -> Vec<Move> {
            let mut v = Vec::new(); mg.generate_pseudo_legal_pawn_moves(board, &mut v); v
        }
        pub fn gen_castles(mg: &MoveGenerator, board: &Board) -> Vec<Move> {
            let mut v = Vec::new(); mg.generate_pseudo_legal_castles(board, &mut v); v
        }
        /// model of the legality filter for the generator/glue harnesses: an arbitrary predicate on the
        /// move; also checks that generate_moves hands the filter the right king square, checkers and pins
        pub fn stub_is_legal(_mg: &MoveGenerator, _board: &Board, mv: &Move, checkers: Bitboard, pinned_pieces: Bitboard, king_square: Square) -> bool {
            // expected arguments are computed once by the harness (through the real king_square / attacks_to /
            // get_pinned_pieces) and stored; recomputing them per move made the glue harness run out of memory
            let e = unsafe { &crate::h_movegen::MGS };
            vassert!(king_square == e.exp_king, "C01: legality filter is handed a wrong king square");
            vassert!(checkers == e.exp_checkers, "C01: legality filter is handed wrong checkers");
            vassert!(pinned_pieces == e.exp_pinned, "C01: legality filter is handed wrong pinned pieces");
            crate::h_movegen::pred(mv)
        }
        pub fn expected_filter_args(mg: &MoveGenerator, board: &Board) -> (Square, Bitboard, Bitboard) {
            let ks = mg.king_square(board);
            (ks, mg.attacks_to(board, ks), mg.get_pinned_pieces(board, ks))
        }
        pub fn stub_king_square(_mg: &MoveGenerator, _board: &Board) -> Square { unsafe { crate::h_movegen::MGS.case_king } }
        pub fn pred_check(mv: &Move) -> bool { !crate::h_movegen::pred(&Move::new(mv.to, mv.from, mv.piece_type, mv.move_type)) }
        pub fn stub_is_check(_mg: &MoveGenerator, _board: &Board, mv: &Move) -> bool { pred_check(mv) }
        pub fn q_pred(mg: &MoveGenerator, board: &Board, mv: &Move) -> bool {
            mg.is_capture(mv) || mg.is_promotion(mv) || mg.is_check(board, mv)
        }
    }
}
pub mod search { include!(concat!(env!("FLOUNDER_SRC"), "/search.rs")); }
pub mod uci { include!(concat!(env!("FLOUNDER_SRC"), "/uci.rs")); }

pub mod spec;
pub mod common;
pub mod gen {
    #[cfg(kani)] pub mod tables_small;
    #[cfg(kani)] pub mod eval_consts;
    #[cfg(not(kani))] pub mod registry;
}
pub mod h_board;
pub mod h_movegen;
pub mod h_misc;
pub mod h_eval;
#[cfg(feature = "zobrist_fields")]
pub mod h_zfields;

#[cfg(not(kani))]
mod native;
#[cfg(not(kani))]
mod selftest;
#[cfg(not(kani))]
pub fn magic_vh_fields(m: &magic::Magic) -> ([u64; 64], [u64; 64], [u64; 64], [u64; 64], &Vec<Vec<u64>>, &Vec<Vec<u64>>) { magic::vh::fields(m) }
#[cfg(not(kani))]
fn main() { native::main(); }
#[cfg(kani)]
fn main() {}
