//! C01 (generated moves = legal moves; check test) and C17 (quiescence move set), rules level.
//! Sliders are the first-blocker ray walk (kani::stub), justified per square by C10.
use crate::board::Board;
use crate::common::*;
use crate::move_gen::vh;
use crate::moves::{Move, MoveType};
use crate::pieces::{Color, Piece};
use crate::spec::*;
use crate::sym;

macro_rules! mg_harness {
    ($name:ident, $unwind:literal, $body:block) => {
        #[cfg_attr(kani, kani::proof)]
        #[cfg_attr(kani, kani::unwind($unwind))]
        #[cfg_attr(kani, kani::stub(crate::magic::Magic::get_rook_attacks, crate::common::stub_rook))]
        #[cfg_attr(kani, kani::stub(crate::magic::Magic::get_bishop_attacks, crate::common::stub_bishop))]
        pub fn $name() $body
    };
}

macro_rules! mg_filterstub_harness {
    ($name:ident, $unwind:literal, $body:block) => {
        #[cfg_attr(kani, kani::proof)]
        #[cfg_attr(kani, kani::unwind($unwind))]
        #[cfg_attr(kani, kani::stub(crate::magic::Magic::get_rook_attacks, crate::common::stub_rook))]
        #[cfg_attr(kani, kani::stub(crate::magic::Magic::get_bishop_attacks, crate::common::stub_bishop))]
        #[cfg_attr(kani, kani::stub(crate::move_gen::MoveGenerator::is_legal, crate::move_gen::vh::stub_is_legal))]
        #[cfg_attr(kani, kani::stub(crate::move_gen::MoveGenerator::is_check, crate::move_gen::vh::stub_is_check))]
        pub fn $name() $body
    };
}

// ---------------------------------------------------------------------------------- check test
// is_in_check agrees with the rules for every valid position (no bound).
mg_harness!(c01_is_in_check, 9, {
    let b = any_board();
    let p = from_board(&b);
    sym::assume(valid(&p));
    let mg = mk_movegen();
    vassert!(mg.is_in_check(&b) == in_check(&p, p.stm), "C01: is_in_check disagrees with the rules");
    vcover!(in_check(&p, p.stm) && p.stm == 1, "black in check");
    vcover!(attackers(&p, king_sq(&p, p.stm), 1 - p.stm, occ(&p)).count_ones() == 2, "double check");
    core::mem::forget(mg);
});

// ---------------------------------------------------------------------------------- legality filter
/// move classes of the case split
pub const CL_QUIET: u8 = 0; pub const CL_CAPTURE: u8 = 1; pub const CL_PROMO: u8 = 2; pub const CL_EP: u8 = 3; pub const CL_CASTLE: u8 = 4; pub const CL_KING: u8 = 5; pub const CL_KINGCAP: u8 = 6;
fn in_class(m: &Move, class: u8) -> bool {
    let king = m.piece_type == Piece::King;
    match class {
        CL_QUIET => m.move_type == MoveType::Quiet && !king,
        CL_CAPTURE => m.move_type == MoveType::Capture && !king,
        CL_PROMO => m.move_type == MoveType::Promotion,
        CL_EP => m.move_type == MoveType::EnPassant,
        CL_CASTLE => m.move_type == MoveType::Castle,
        _ => king && (m.move_type == MoveType::Quiet || m.move_type == MoveType::Capture),
    }
}
/// The real legality filter (king_square, get_pinned_pieces, attacks_to, is_legal and everything
/// below it) on EVERY valid position with the mover's king on `ksq`, for every pseudo-legal move
/// of the class: accepted exactly when the rules allow it.
pub fn filter_case(white: bool, ksq: u8, class: u8) {
    // side to move and move type are CONCRETE per case (assigned, not assumed): with a symbolic move type every
    // branch of make_move/apply is explored in one query (measured: 33 GB instead of ~3 GB)
    let mut b = any_board();
    b.active_color = if white { Color::White } else { Color::Black };
    let p = from_board(&b);
    let us = if white { 0 } else { 1 };
    sym::assume(p.pc[K] & p.col[us] == bit(ksq));
    sym::assume(valid(&p));
    let mt = match class { CL_QUIET => MoveType::Quiet, CL_CAPTURE => MoveType::Capture, CL_PROMO => MoveType::Promotion, CL_EP => MoveType::EnPassant, CL_CASTLE => MoveType::Castle, CL_KING => MoveType::Quiet, _ => MoveType::Capture };
    let mut m = any_move_of(mt);
    if class == CL_CASTLE || class >= CL_KING { m.piece_type = Piece::King; } else { sym::assume(m.piece_type != Piece::King); }
    sym::assume(pseudo_legal(&p, &m));
    let mg = mk_movegen();
    // king_square() is replaced by the case's constant (kani::stub; c01_king_square proves the real one returns the
    // king's square for every valid board): with a CONCRETE king square the between/line table lookups of the pin
    // and check logic become 64-way instead of 4096-way selections (127 M clauses -> a few M)
    unsafe { MGS.case_king = ksq; }
    let got = vh::filter_one(&mg, &b, &m);
    let want = legal(&p, &m);
    vassert!(got == want, "C01: legality filter disagrees with the rules (a legal move is dropped or an illegal one kept)");
    vcover!(want, "legal move of the class");
    vcover!(!want, "illegal pseudo-legal move of the class");
    core::mem::forget(mg);
}
macro_rules! filter_harness { ($name:ident, $w:literal, $k:literal, $c:literal) => {
    #[cfg_attr(kani, kani::proof)]
    #[cfg_attr(kani, kani::unwind(17))]
    #[cfg_attr(kani, kani::stub(crate::magic::Magic::get_rook_attacks, crate::common::stub_rook))]
    #[cfg_attr(kani, kani::stub(crate::magic::Magic::get_bishop_attacks, crate::common::stub_bishop))]
    #[cfg_attr(kani, kani::stub(crate::move_gen::MoveGenerator::king_square, crate::move_gen::vh::stub_king_square))]
    pub fn $name() { filter_case($w, $k, $c); }
}; }
// king_square returns the square of the mover's king, for every valid position (justifies the stub above)
mg_harness!(c01_king_square, 9, {
    let b = any_board();
    let p = from_board(&b);
    sym::assume(valid(&p));
    let mg = mk_movegen();
    vassert!(mg.king_square(&b) == king_sq(&p, p.stm), "C01: king_square is not the square of the mover's king");
    vcover!(p.stm == 1 && king_sq(&p, 1) == 63, "black king on h8");
    core::mem::forget(mg);
});
include!("gen/h_c01_cases.rs");

// ---------------------------------------------------------------------------------- generators + glue
fn same_move(a: &Move, b: &Move) -> bool { a.from == b.from && a.to == b.to && a.piece_type == b.piece_type && a.move_type == b.move_type }
/// an arbitrary but fixed predicate on moves (the SALT is symbolic): stands for "the filter accepts m"
pub struct MgState { pub magic: u64, pub salt: u32, pub case_king: u8, pub exp_king: u8, pub exp_checkers: u64, pub exp_pinned: u64 }
/// (struct with a sentinel field: see h_eval.rs)
pub static mut MGS: MgState = MgState { magic: 0x5EED_5A17_0BAD_F00D, salt: 0, case_king: 64, exp_king: 64, exp_checkers: 0, exp_pinned: 0 };
pub fn pred(m: &Move) -> bool {
    let x = (m.from as u32) * 64 + m.to as u32 + 4096 * (pidx(m.piece_type) as u32) + 32768 * (match m.move_type { MoveType::Quiet => 0, MoveType::Capture => 1, MoveType::EnPassant => 2, MoveType::Castle => 3, MoveType::Promotion => 4 });
    ((x ^ unsafe { MGS.salt }).wrapping_mul(0x9E37_79B1) >> 13) & 1 == 1
}
/// generate_moves end to end with the legality filter replaced by an ARBITRARY predicate (kani::stub of
/// is_legal; the real filter is decided separately, case by case, by c01_filter_*): the list is exactly
/// the pseudo-legal moves the predicate accepts - every generator emits all and only the pseudo-legal
/// moves of its class, nothing twice, retain() applies the filter to each, nothing is appended later -
/// and the filter is handed the mover's king square, the checkers of that square and the pinned men.
/// Boards: two kings and up to `extra` further men of any kind, any (consistent) flags.
pub fn generators_case(extra: usize, kind: u8) {
    let (b, men) = small_board_men(extra);
    let p = from_board(&b);
    sym::assume(valid(&p));
    // the first further man's kind is concrete per harness (5 harnesses instead of one 16 GB query)
    sym::assume(!men[2].0 || men[2].2 == kind as usize);
    unsafe { MGS.salt = sym::u32(); }
    let mg = mk_movegen();
    let (ek, ec, ep) = vh::expected_filter_args(&mg, &b);
    unsafe { MGS.exp_king = ek; MGS.exp_checkers = ec; MGS.exp_pinned = ep; }
    let out = mg.generate_moves(&b);
    let n = out.len();
    // under Kani the filter is the arbitrary predicate; in a native replay (no stubs) it is the real filter,
    // so the same assertions are checked against the rules' legality
    let accepted = |m: &Move| if sym::native() { legal(&p, m) } else { pred(m) };
    let i = sym::u8() as usize; let j = sym::u8() as usize;
    if i < n {
        vassert!(pseudo_legal(&p, &out[i]), "C01: a generated move is not even pseudo-legal (wrong from/to/kind/type for this position)");
        vassert!(accepted(&out[i]), "C01: a move rejected by the legality filter stays in the list");
        if j < n && i != j { vassert!(!same_move(&out[i], &out[j]), "C01: a move is generated twice"); }
    }
    let m = any_move();
    if pseudo_legal(&p, &m) && accepted(&m) {
        let mut found = false; let mut k = 0;
        while k < n { if same_move(&out[k], &m) { found = true; } k += 1; }
        vassert!(found, "C01: a pseudo-legal move accepted by the legality filter is missing from the generated list");
    }
    vcover!(n > 12, "more than twelve moves kept");
    vcover!(i < n && out[i].move_type == MoveType::Promotion && out[i].piece_type == Piece::Knight, "knight promotion generated");
    core::mem::forget(mg);
}
mg_filterstub_harness!(c01_generators_3men_pawn, 24, { generators_case(1, 0); });
mg_filterstub_harness!(c01_generators_3men_knight, 20, { generators_case(1, 1); });
mg_filterstub_harness!(c01_generators_3men_bishop, 24, { generators_case(1, 2); });
mg_filterstub_harness!(c01_generators_3men_rook, 26, { generators_case(1, 3); });
mg_filterstub_harness!(c01_generators_3men_queen, 38, { generators_case(1, 4); });
mg_filterstub_harness!(c01_generators_4men_pawn, 40, { generators_case(2, 0); });
mg_filterstub_harness!(c01_generators_4men_queen, 66, { generators_case(2, 4); });

// ---------------------------------------------------------------------------------- C17
/// For every valid position and every legal move: the engine's quiescence predicate
/// (is_capture || is_promotion || is_check, with the real clone_with_move / king_square /
/// attacks_to on the successor) holds exactly for captures (incl. en passant), promotions and
/// moves after which the opponent's king is attacked (direct, discovered, by castling rook,
/// by the promoted piece, by en-passant discovery).  One harness per move type.
pub fn qpred_case(mt: MoveType) {
    let b = any_board();
    let p = from_board(&b);
    sym::assume(valid(&p));
    let m = any_move_of(mt);
    sym::assume(legal(&p, &m));
    let mg = mk_movegen();
    let got = vh::q_pred(&mg, &b, &m);
    let n = apply(&p, &m);
    let gives_check = in_check(&n, 1 - p.stm);
    let want = m.move_type == MoveType::Capture || m.move_type == MoveType::EnPassant || m.move_type == MoveType::Promotion || gives_check;
    vassert!(got == want, "C17: quiescence predicate differs from 'captures, promotions and checks'");
    vcover!(gives_check, "move gives check");
    vcover!(gives_check && attackers(&n, king_sq(&n, 1 - p.stm), p.stm, occ(&n)) & bit(m.to) == 0, "check not given by the moved piece (discovered / castling rook)");
    vcover!(!want, "quiet move without check");
    core::mem::forget(mg);
}
mg_harness!(c17_qpred_quiet, 9, { qpred_case(MoveType::Quiet); });
mg_harness!(c17_qpred_capture, 9, { qpred_case(MoveType::Capture); });
mg_harness!(c17_qpred_ep, 9, { qpred_case(MoveType::EnPassant); });
mg_harness!(c17_qpred_castle, 9, { qpred_case(MoveType::Castle); });
mg_harness!(c17_qpred_promotion, 9, { qpred_case(MoveType::Promotion); });

/// generate_quiescence_moves(b) is exactly the sub-list of generate_moves(b) selected by
/// is_capture || is_promotion || is_check (is_check replaced by an arbitrary predicate on the move,
/// the real one is c17_qpred_*; the legality filter by another): nothing added, nothing dropped.
pub fn qglue_case(extra: usize, kind: u8) {
    let (b, men) = small_board_men(extra);
    let p = from_board(&b);
    sym::assume(valid(&p));
    sym::assume(!men[2].0 || men[2].2 == kind as usize);
    unsafe { MGS.salt = sym::u32(); }
    let mg = mk_movegen();
    let (ek, ec, ep) = vh::expected_filter_args(&mg, &b);
    unsafe { MGS.exp_king = ek; MGS.exp_checkers = ec; MGS.exp_pinned = ep; }
    let all = mg.generate_moves(&b);
    let q = mg.generate_quiescence_moves(&b);
    let (na, nq) = (all.len(), q.len());
    let sel = |m: &Move| m.move_type == MoveType::Capture || m.move_type == MoveType::EnPassant || m.move_type == MoveType::Promotion
        || (if sym::native() { in_check(&apply(&p, m), 1 - p.stm) } else { crate::move_gen::vh::pred_check(m) });
    vassert!(nq <= na, "C17: quiescence list longer than the legal move list");
    let i = sym::u8() as usize;
    if i < nq {
        vassert!(sel(&q[i]), "C17: quiescence list contains a move that neither captures, promotes nor checks");
        let mut found = false; let mut k = 0;
        while k < na { if same_move(&all[k], &q[i]) { found = true; } k += 1; }
        vassert!(found, "C17: quiescence list contains a move that is not in the legal move list");
    }
    let j = sym::u8() as usize;
    if j < na && sel(&all[j]) {
        let mut found = false; let mut k = 0;
        while k < nq { if same_move(&q[k], &all[j]) { found = true; } k += 1; }
        vassert!(found, "C17: a capturing, promoting or checking legal move is missing from the quiescence list");
    }
    vcover!(nq > 0 && nq < na, "some but not all moves are tactical");
    core::mem::forget(mg);
}
mg_filterstub_harness!(c17_qglue_3men_pawn, 24, { qglue_case(1, 0); });
mg_filterstub_harness!(c17_qglue_3men_knight, 20, { qglue_case(1, 1); });
mg_filterstub_harness!(c17_qglue_3men_rook, 26, { qglue_case(1, 3); });
mg_filterstub_harness!(c17_qglue_3men_queen, 38, { qglue_case(1, 4); });

// ---------------------------------------------------------------------------------- single generators
/// One pseudo-legal generator at a time (no filter, no retain), on boards with two kings, one man of the
/// generator's kind for the side to move and one further arbitrary man: the generated list is exactly
/// the pseudo-legal moves of that kind (every element pseudo-legal and of the kind, none twice, none
/// missing).  which: 0 pawn moves (pushes, double pushes, captures, en passant, promotions),
/// 1 knight, 2 bishop, 3 rook, 4 queen, 5 king steps, 6 castles.
pub fn single_generator_case(which: u8) {
    let (b, men) = small_board_men(2);
    let p = from_board(&b);
    sym::assume(valid(&p));
    let us = p.stm;
    // man 2: present, ours, of the generator's kind (king steps / castles: a rook, so castling can be available)
    let kind = if which <= 4 { which as usize } else { 3 };
    sym::assume(men[2].0 && men[2].1 == us && men[2].2 == kind);
    let mg = mk_movegen();
    let out = match which { 0 => vh::gen_pawns(&mg, &b), 6 => vh::gen_castles(&mg, &b), _ => vh::gen_piece(&mg, &b, piece_of(which)) };
    let n = out.len();
    let of_kind = |m: &Move| match which {
        0 => m.move_type != MoveType::Castle && (m.piece_type == Piece::Pawn || m.move_type == MoveType::Promotion) && piece_at(&p, m.from) == 0,
        6 => m.move_type == MoveType::Castle,
        _ => m.piece_type == piece_of(which) && (m.move_type == MoveType::Quiet || m.move_type == MoveType::Capture),
    };
    let i = sym::u8() as usize; let j = sym::u8() as usize;
    if i < n {
        vassert!(pseudo_legal(&p, &out[i]) && of_kind(&out[i]), "C01: a generator emits a move that is not a pseudo-legal move of its kind");
        if j < n && i != j { vassert!(!same_move(&out[i], &out[j]), "C01: a generator emits a move twice"); }
    }
    let m = any_move();
    if pseudo_legal(&p, &m) && of_kind(&m) {
        let mut found = false; let mut k = 0;
        while k < n { if same_move(&out[k], &m) { found = true; } k += 1; }
        vassert!(found, "C01: a pseudo-legal move is missing from its generator's output");
    }
    vcover!(n >= 3, "three or more moves generated");
    core::mem::forget(mg);
}
mg_harness!(c01_gen_pawn, 15, { single_generator_case(0); });
mg_harness!(c01_gen_knight, 11, { single_generator_case(1); });
mg_harness!(c01_gen_bishop, 16, { single_generator_case(2); });
mg_harness!(c01_gen_rook, 17, { single_generator_case(3); });
mg_harness!(c01_gen_queen, 30, { single_generator_case(4); });
mg_harness!(c01_gen_king, 11, { single_generator_case(5); });
mg_harness!(c01_gen_castles, 9, { single_generator_case(6); });
