//! Native driver: table dump, counterexample replay, oracle self-test.
use crate::sym;
use std::fmt::Write as _;

fn dump_small(path: &str) {
    let l = crate::lookup::LookupTable::init();
    let mut s = String::new();
    writeln!(s, "// generated from /repo's LookupTable::init() by `frules dump-small`; do not edit").unwrap();
    writeln!(s, "pub static KNIGHT: [u64;64] = {:?};", l.knight_lookup).unwrap();
    writeln!(s, "pub static KING: [u64;64] = {:?};", l.king_lookup).unwrap();
    writeln!(s, "pub static BETWEEN_INC: [[u64;64];64] = {:?};", l.inclusive_between_lookup).unwrap();
    writeln!(s, "pub static BETWEEN_EXC: [[u64;64];64] = {:?};", l.exclusive_between_lookup).unwrap();
    std::fs::write(path, s).unwrap();
    // value ranges of the evaluator's piece-square tables (checked entry by entry by c14_table_ranges)
    let mut e = String::new();
    writeln!(e, "// generated from /repo's eval.rs tables by `frules dump-small`; do not edit").unwrap();
    for (name, endgame, max) in [("MIN_OPEN", false, false), ("MAX_OPEN", false, true), ("MIN_END", true, false), ("MAX_END", true, true)] {
        let mut v = [0i32; 6];
        for p in 0..6 {
            let it = (0..64).map(|s| if endgame { crate::eval::vh::endgame(p, s) } else { crate::eval::vh::opening(p, s) });
            v[p] = if max { it.max().unwrap() } else { it.min().unwrap() };
        }
        writeln!(e, "pub static {}: [i32;6] = {:?};", name, v).unwrap();
    }
    let ep = std::path::Path::new(path).with_file_name("eval_consts.rs");
    std::fs::write(ep, e).unwrap();
}

fn dump_magic(dir: &str) {
    let l = crate::lookup::LookupTable::init();
    let m = &l.magic_table;
    let (rm, bm, rg, bg, ra, ba) = crate::magic_vh_fields(m);
    let mut s = String::new();
    writeln!(s, "// generated from /repo's Magic::new() by `frules dump-magic`; do not edit").unwrap();
    writeln!(s, "pub static ROOK_MASKS: [u64;64] = {:?};", rm).unwrap();
    writeln!(s, "pub static BISHOP_MASKS: [u64;64] = {:?};", bm).unwrap();
    writeln!(s, "pub static ROOK_MAGICS: [u64;64] = {:?};", rg).unwrap();
    writeln!(s, "pub static BISHOP_MAGICS: [u64;64] = {:?};", bg).unwrap();
    writeln!(s, "pub static KNIGHT: [u64;64] = {:?};", l.knight_lookup).unwrap();
    writeln!(s, "pub static KING: [u64;64] = {:?};", l.king_lookup).unwrap();
    writeln!(s, "pub static BETWEEN_INC: [[u64;64];64] = {:?};", l.inclusive_between_lookup).unwrap();
    writeln!(s, "pub static BETWEEN_EXC: [[u64;64];64] = {:?};", l.exclusive_between_lookup).unwrap();
    std::fs::write(format!("{}/tables_common.rs", dir), s).unwrap();
    for sq in 0..64 {
        let mut t = String::new();
        writeln!(t, "pub static ROOK_T: [u64;{}] = {:?};", ra[sq].len(), ra[sq]).unwrap();
        writeln!(t, "pub static BISHOP_T: [u64;{}] = {:?};", ba[sq].len(), ba[sq]).unwrap();
        std::fs::write(format!("{}/sq{}.rs", dir, sq), t).unwrap();
    }
}

fn parse_vals(path: &str) -> Vec<Vec<u8>> {
    let txt = std::fs::read_to_string(path).expect("vals file");
    txt.lines().filter(|l| !l.trim().is_empty() && !l.starts_with('#'))
        .map(|l| l.split_whitespace().map(|t| t.parse::<u8>().expect("byte")).collect()).collect()
}

fn json_str(s: &str) -> String {
    let mut o = String::from("\"");
    for c in s.chars() { match c { '"' => o.push_str("\\\""), '\\' => o.push_str("\\\\"), '\n' => o.push_str("\\n"), c if (c as u32) < 32 => { let _ = write!(o, "\\u{:04x}", c as u32); } c => o.push(c) } }
    o.push('"'); o
}

fn replay(name: &str, path: &str) -> i32 {
    let f = match crate::gen::registry::lookup(name) { Some(f) => f, None => { println!("{{\"error\":\"unknown harness\"}}"); return 3; } };
    sym::load(parse_vals(path));
    std::panic::set_hook(Box::new(|_| {}));
    let r = std::panic::catch_unwind(f);
    let (violated, bad_stream, mut failures, covers, notes) = sym::result();
    let mut panic_msg = String::new();
    if let Err(e) = r {
        panic_msg = if let Some(s) = e.downcast_ref::<&str>() { s.to_string() } else if let Some(s) = e.downcast_ref::<String>() { s.clone() } else { "panic".to_string() };
        if !violated { failures.push(format!("panic: {}", panic_msg)); }
    }
    let mut out = String::new();
    write!(out, "{{\"harness\":{},\"assumption_violated\":{},\"bad_stream\":{},\"failures\":[", json_str(name), violated, bad_stream).unwrap();
    for (i, f) in failures.iter().enumerate() { if i > 0 { out.push(','); } out.push_str(&json_str(f)); }
    out.push_str("],\"covers\":[");
    for (i, f) in covers.iter().enumerate() { if i > 0 { out.push(','); } out.push_str(&json_str(f)); }
    out.push_str("],\"notes\":{");
    for (i, (k, v)) in notes.iter().enumerate() { if i > 0 { out.push(','); } out.push_str(&json_str(k)); out.push(':'); out.push_str(&json_str(v)); }
    out.push_str("}}");
    println!("{}", out);
    if violated || bad_stream { 2 } else if failures.is_empty() { 0 } else { 1 }
}

pub fn main() {
    let a: Vec<String> = std::env::args().collect();
    let code = match a.get(1).map(|s| s.as_str()) {
        Some("dump-small") => { dump_small(&a[2]); 0 }
        Some("dump-magic") => { dump_magic(&a[2]); 0 }
        Some("replay") => replay(&a[2], &a[3]),
        Some("selftest") => crate::selftest::run(),
        _ => { eprintln!("usage: frules dump-small <file> | dump-magic <dir> | replay <harness> <vals> | selftest"); 64 }
    };
    std::process::exit(code);
}
