//! Independent reference model of chess rules over the engine's Board/Move types.
use crate::board::{Board, Castle};
use crate::moves::{Move, MoveType};
use crate::pieces::{Color, Piece};

pub const P: usize = 0; pub const N: usize = 1; pub const B: usize = 2;
pub const R: usize = 3; pub const Q: usize = 4; pub const K: usize = 5;

#[derive(Copy, Clone, PartialEq, Eq)]
pub struct Pos {
    pub pc: [u64; 6],
    pub col: [u64; 2],
    pub stm: usize, // 0 white 1 black
    pub cr: [bool; 4], // WK WQ BK BQ
    pub ep: u8, // 64 = none
}

pub fn bit(sq: u8) -> u64 { 1u64 << sq }

pub fn ray_attacks(sq: u8, occ: u64, diag: bool) -> u64 {
    let r0 = (sq / 8) as i8; let f0 = (sq % 8) as i8;
    let mut a = 0u64;
    let dirs: [(i8,i8);4] = if diag { [(1,1),(-1,1),(1,-1),(-1,-1)] } else { [(1,0),(-1,0),(0,1),(0,-1)] };
    let mut d = 0;
    while d < 4 {
        let (dr, df) = dirs[d];
        let mut open = true;
        let mut k: i8 = 1;
        while k < 8 {
            let r = r0 + dr * k; let f = f0 + df * k;
            if open && r >= 0 && r < 8 && f >= 0 && f < 8 {
                let b = 1u64 << (r*8+f);
                a |= b;
                if occ & b != 0 { open = false; }
            } else { open = false; }
            k += 1;
        }
        d += 1;
    }
    a
}

pub fn step_attacks(sq: u8, steps: &[(i8,i8)]) -> u64 {
    let r0 = (sq / 8) as i8; let f0 = (sq % 8) as i8;
    let mut a = 0u64;
    let mut i = 0;
    while i < steps.len() {
        let r = r0 + steps[i].0; let f = f0 + steps[i].1;
        if r >= 0 && r < 8 && f >= 0 && f < 8 { a |= 1u64 << (r*8+f); }
        i += 1;
    }
    a
}
pub const KNIGHT_STEPS: [(i8,i8);8] = [(2,1),(2,-1),(-2,1),(-2,-1),(1,2),(1,-2),(-1,2),(-1,-2)];
pub const KING_STEPS: [(i8,i8);8] = [(1,0),(-1,0),(0,1),(0,-1),(1,1),(1,-1),(-1,1),(-1,-1)];

/// squares from which a pawn of colour `by` attacks `sq`
pub fn pawn_attackers_of(sq: u8, by: usize) -> u64 {
    // white pawn on s attacks s+7, s+9 => attackers of sq are sq-7, sq-9 (one rank below)
    if by == 0 { step_attacks(sq, &[(-1,1),(-1,-1)]) } else { step_attacks(sq, &[(1,1),(1,-1)]) }
}

/// set of pieces of colour `by` that attack `sq` given occupancy `occ`
pub fn attackers(p: &Pos, sq: u8, by: usize, occ: u64) -> u64 {
    let them = p.col[by];
    let mut a = 0u64;
    a |= pawn_attackers_of(sq, by) & p.pc[P] & them;
    a |= step_attacks(sq, &KNIGHT_STEPS) & p.pc[N] & them;
    a |= step_attacks(sq, &KING_STEPS) & p.pc[K] & them;
    a |= ray_attacks(sq, occ, true) & (p.pc[B] | p.pc[Q]) & them;
    a |= ray_attacks(sq, occ, false) & (p.pc[R] | p.pc[Q]) & them;
    a
}

pub fn occ(p: &Pos) -> u64 { p.col[0] | p.col[1] }
pub fn king_sq(p: &Pos, c: usize) -> u8 { (p.pc[K] & p.col[c]).trailing_zeros() as u8 }
pub fn in_check(p: &Pos, c: usize) -> bool { attackers(p, king_sq(p, c), 1 - c, occ(p)) != 0 }

pub fn structurally_valid(p: &Pos) -> bool {
    // piece boards pairwise disjoint, colours disjoint, union equal
    let mut u = 0u64; let mut i = 0; let mut ok = true;
    while i < 6 { if u & p.pc[i] != 0 { ok = false; } u |= p.pc[i]; i += 1; }
    ok = ok && (p.col[0] & p.col[1] == 0) && (u == (p.col[0] | p.col[1]));
    ok = ok && (p.pc[K] & p.col[0]).count_ones() == 1 && (p.pc[K] & p.col[1]).count_ones() == 1;
    ok = ok && (p.pc[P] & 0xFF000000000000FFu64) == 0;
    ok
}

pub fn rights_consistent(p: &Pos) -> bool {
    let wk = p.pc[K] & p.col[0] == bit(4); let bk = p.pc[K] & p.col[1] == bit(60);
    let wr = p.pc[R] & p.col[0]; let br = p.pc[R] & p.col[1];
    (!p.cr[0] || (wk && wr & bit(7) != 0)) && (!p.cr[1] || (wk && wr & bit(0) != 0)) &&
    (!p.cr[2] || (bk && br & bit(63) != 0)) && (!p.cr[3] || (bk && br & bit(56) != 0))
}

pub fn ep_consistent(p: &Pos) -> bool {
    if p.ep == 64 { return true; }
    if p.ep > 64 { return false; }
    let o = occ(p);
    if p.stm == 0 {
        // black just double-pushed: ep on rank 6 (idx 5), black pawn on ep-8, ep and ep+8 empty
        p.ep / 8 == 5 && (p.pc[P] & p.col[1] & bit(p.ep - 8)) != 0 && o & bit(p.ep) == 0 && o & bit(p.ep + 8) == 0
    } else {
        p.ep / 8 == 2 && (p.pc[P] & p.col[0] & bit(p.ep + 8)) != 0 && o & bit(p.ep) == 0 && o & bit(p.ep - 8) == 0
    }
}

pub fn valid(p: &Pos) -> bool {
    structurally_valid(p) && p.stm < 2 && rights_consistent(p) && ep_consistent(p) && !in_check(p, 1 - p.stm)
}

pub fn piece_at(p: &Pos, sq: u8) -> usize { // 6 = none
    let b = bit(sq); let mut i = 0; let mut r = 6;
    while i < 6 { if p.pc[i] & b != 0 { r = i; } i += 1; }
    r
}

pub fn pidx(pc: Piece) -> usize { match pc { Piece::Pawn=>0, Piece::Knight=>1, Piece::Bishop=>2, Piece::Rook=>3, Piece::Queen=>4, Piece::King=>5 } }

pub fn from_board(b: &Board) -> Pos {
    let (wk, wq) = b.castling_ability(Color::White);
    let (bk, bq) = b.castling_ability(Color::Black);
    Pos {
        pc: [b.bb_piece(Piece::Pawn), b.bb_piece(Piece::Knight), b.bb_piece(Piece::Bishop), b.bb_piece(Piece::Rook), b.bb_piece(Piece::Queen), b.bb_piece(Piece::King)],
        col: [b.bb_color(Color::White), b.bb_color(Color::Black)],
        stm: match b.active_color { Color::White => 0, Color::Black => 1 },
        cr: [wk, wq, bk, bq],
        ep: match b.en_passant_target { Some(s) => s, None => 64 },
    }
}

/// Is `m` (engine encoding) a pseudo-legal move in p (ignoring own-king safety, but with castling path emptiness)?
pub fn pseudo_legal(p: &Pos, m: &Move) -> bool {
    if m.from > 63 || m.to > 63 || m.from == m.to { return false; }
    let us = p.stm; let them = 1 - us;
    let o = occ(p);
    let fb = bit(m.from); let tb = bit(m.to);
    let mover = piece_at(p, m.from);
    if p.col[us] & fb == 0 { return false; }
    let target_own = p.col[us] & tb != 0;
    let target_enemy = p.col[them] & tb != 0;
    if target_own { return false; }
    let fr = (m.from / 8) as i8; let ff = (m.from % 8) as i8;
    let tr = (m.to / 8) as i8; let tf = (m.to % 8) as i8;
    let fwd: i8 = if us == 0 { 1 } else { -1 };
    let start_rank: i8 = if us == 0 { 1 } else { 6 };
    let promo_from_rank: i8 = if us == 0 { 6 } else { 1 };
    match m.move_type {
        MoveType::Castle => {
            if m.piece_type != Piece::King || mover != K { return false; }
            let (e, g, c, ks, qs, kmask, qmask) = if us == 0 { (4u8, 6u8, 2u8, p.cr[0], p.cr[1], 0x60u64, 0x0Eu64) } else { (60, 62, 58, p.cr[2], p.cr[3], 0x60u64 << 56, 0x0Eu64 << 56) };
            if m.from != e { return false; }
            if m.to == g { ks && o & kmask == 0 } else if m.to == c { qs && o & qmask == 0 } else { false }
        }
        MoveType::EnPassant => {
            m.piece_type == Piece::Pawn && mover == P && p.ep < 64 && m.to == p.ep && tr == fr + fwd && (tf - ff == 1 || ff - tf == 1)
        }
        MoveType::Promotion => {
            if mover != P || fr != promo_from_rank || tr != fr + fwd { return false; }
            let okpiece = matches!(m.piece_type, Piece::Knight | Piece::Bishop | Piece::Rook | Piece::Queen);
            if !okpiece { return false; }
            if tf == ff { o & tb == 0 } else if tf - ff == 1 || ff - tf == 1 { target_enemy } else { false }
        }
        MoveType::Quiet | MoveType::Capture => {
            let is_cap = m.move_type == MoveType::Capture;
            if is_cap != target_enemy { return false; }
            if pidx(m.piece_type) != mover { return false; }
            match mover {
                0 => {
                    if fr == promo_from_rank { return false; }
                    if is_cap { tr == fr + fwd && (tf - ff == 1 || ff - tf == 1) }
                    else if tf != ff { false }
                    else if tr == fr + fwd { true }
                    else { fr == start_rank && tr == fr + 2 * fwd && o & bit((m.from as i8 + 8 * fwd) as u8) == 0 }
                }
                1 => step_attacks(m.from, &KNIGHT_STEPS) & tb != 0,
                2 => ray_attacks(m.from, o, true) & tb != 0,
                3 => ray_attacks(m.from, o, false) & tb != 0,
                4 => (ray_attacks(m.from, o, true) | ray_attacks(m.from, o, false)) & tb != 0,
                _ => step_attacks(m.from, &KING_STEPS) & tb != 0,
            }
        }
    }
}

/// successor position by the rules (assumes pseudo_legal)
pub fn apply(p: &Pos, m: &Move) -> Pos {
    let us = p.stm; let them = 1 - us;
    let mut n = *p;
    let fb = bit(m.from); let tb = bit(m.to);
    let mover = piece_at(p, m.from);
    // remove any piece on target
    let mut i = 0; while i < 6 { n.pc[i] &= !tb; i += 1; }
    n.col[them] &= !tb;
    // move piece
    n.pc[mover] &= !fb; n.col[us] &= !fb; n.col[us] |= tb;
    let placed = if m.move_type == MoveType::Promotion { pidx(m.piece_type) } else { mover };
    n.pc[placed] |= tb;
    if m.move_type == MoveType::EnPassant {
        let v = if us == 0 { m.to - 8 } else { m.to + 8 };
        n.pc[P] &= !bit(v); n.col[them] &= !bit(v);
    }
    if m.move_type == MoveType::Castle {
        let (rf, rt) = if m.to == 6 { (7u8, 5u8) } else if m.to == 2 { (0, 3) } else if m.to == 62 { (63, 61) } else { (56, 59) };
        n.pc[R] &= !bit(rf); n.col[us] &= !bit(rf); n.pc[R] |= bit(rt); n.col[us] |= bit(rt);
    }
    // rights
    if mover == K { n.cr[2*us] = false; n.cr[2*us+1] = false; }
    if m.from == 7 || m.to == 7 { n.cr[0] = false; }
    if m.from == 0 || m.to == 0 { n.cr[1] = false; }
    if m.from == 63 || m.to == 63 { n.cr[2] = false; }
    if m.from == 56 || m.to == 56 { n.cr[3] = false; }
    // ep
    n.ep = 64;
    if mover == P && (m.to as i8 - m.from as i8 == 16 || m.from as i8 - m.to as i8 == 16) { n.ep = (m.from + m.to) / 2; }
    n.stm = them;
    n
}

pub fn legal(p: &Pos, m: &Move) -> bool {
    if !pseudo_legal(p, m) { return false; }
    let us = p.stm;
    if m.move_type == MoveType::Castle {
        if in_check(p, us) { return false; }
        let mid = (m.from + m.to) / 2;
        if attackers(p, mid, 1 - us, occ(p)) != 0 { return false; }
    }
    let n = apply(p, m);
    !in_check(&n, us)
}
