//! C04 (FEN fields, move naming), C11 (Zobrist hash), C14 (static evaluation), C09-R1 (repetition table).
use crate::board::{Board, Castle};
use crate::common::*;
use crate::moves::{Move, MoveType};
use crate::pieces::{Color, Piece};
use crate::spec::*;
use crate::sym;

// ------------------------------------------------------------------------------------------ C04-F
fn str_of(buf: &[u8], len: usize) -> &str { unsafe { core::str::from_utf8_unchecked(core::slice::from_raw_parts(buf.as_ptr(), len)) } }
/// the same mapping as LETTERS, as a chain of conditionals: the symbolic byte is then an if-then-else
/// over constants, and CBMC folds `byte == '/'` to false (an array read would not fold)
fn letter(c: u8) -> u8 {
    if c == 0 { b'1' } else if c == 1 { b'P' } else if c == 2 { b'N' } else if c == 3 { b'B' } else if c == 4 { b'R' } else if c == 5 { b'Q' } else if c == 6 { b'K' }
    else if c == 7 { b'p' } else if c == 8 { b'n' } else if c == 9 { b'b' } else if c == 10 { b'r' } else if c == 11 { b'q' } else { b'k' }
}
/// byte-at-a-time model of core's memchr (word-at-a-time bit tricks defeat constant folding)
pub fn stub_memchr(x: u8, text: &[u8]) -> Option<usize> { let mut i = 0; while i < text.len() { if text[i] == x { return Some(i); } i += 1; } None }
const LETTERS: [u8; 13] = [b'1', b'P', b'N', b'B', b'R', b'Q', b'K', b'p', b'n', b'b', b'r', b'q', b'k'];

/// One rank (concrete index RANK_IDX in the string, i.e. rank 8-RANK_IDX) holds any eight symbolic
/// squares (13 states each, spelled without digit runs: "1" per empty square); the other ranks are
/// the start position's.  parse_piece_placement reconstructs exactly that placement.
fn placement_one_rank(idx: usize, nsym: usize) {
    const START: [&[u8; 8]; 8] = [b"rnbqkbnr", b"pppppppp", b"11111111", b"11111111", b"11111111", b"11111111", b"PPPPPPPP", b"RNBQKBNR"];
    let mut s = [b'/'; 71];
    let mut want = Pos { pc: [0; 6], col: [0; 2], stm: 0, cr: [false; 4], ep: 64 };
    let mut i = 0;
    while i < 8 {
        let rank = 7 - i;
        let mut f = 0;
        while f < 8 {
            let c = if i == idx && f < nsym { let c = sym::u8(); sym::assume(c < 13); c } else {
                let ch = START[i][f]; let mut k = 0u8; let mut j = 0; while j < 13 { if LETTERS[j] == ch { k = j as u8; } j += 1; } k };
            s[i * 9 + f] = if i == idx && f < nsym { letter(c) } else { START[i][f] };
            if c > 0 {
                let sq = (rank * 8 + f) as u8;
                want.pc[((c - 1) % 6) as usize] |= bit(sq);
                want.col[if c <= 6 { 0 } else { 1 }] |= bit(sq);
            }
            f += 1;
        }
        i += 1;
    }
    let text = str_of(&s, 71);
    vnote!("placement", "{}", text);
    let got = crate::fen::vh::placement(text);
    vassert!(got.is_ok(), "C04: a well-formed piece placement is rejected");
    if let Ok(pos) = got {
        let b = Board { position: pos, active_color: Color::White, castling_ability: Castle::new(false, false, false, false), en_passant_target: None, halfmove_clock: 0, fullmove_counter: 1 };
        let p = from_board(&b);
        vassert!(p.pc[0] == want.pc[0] && p.pc[1] == want.pc[1] && p.pc[2] == want.pc[2] && p.pc[3] == want.pc[3] && p.pc[4] == want.pc[4] && p.pc[5] == want.pc[5],
            "C04: piece placement parsed from FEN differs from the FEN (piece kinds)");
        vassert!(p.col[0] == want.col[0] && p.col[1] == want.col[1], "C04: piece placement parsed from FEN differs from the FEN (colours)");
    }
    vcover!(want.pc[5] & want.col[1] & bit((7 - idx as u8) * 8 + 4) != 0, "black king on the e-file of the symbolic rank");
}
macro_rules! rank_harness { ($name:ident, $i:literal) => {
    #[cfg_attr(kani, kani::proof)]
    #[cfg_attr(kani, kani::unwind(73))]
    pub fn $name() { placement_one_rank($i, 1); }
}; }
rank_harness!(c04_placement_rank8, 0); rank_harness!(c04_placement_rank7, 1); rank_harness!(c04_placement_rank6, 2); rank_harness!(c04_placement_rank5, 3);
rank_harness!(c04_placement_rank4, 4); rank_harness!(c04_placement_rank3, 5); rank_harness!(c04_placement_rank2, 6); rank_harness!(c04_placement_rank1, 7);

/// One rank spelled with digit runs (every way of splitting runs of empty squares, e.g. "3p4",
/// "12p31", "8"), as the first or the last rank of the placement; the others empty ("8").
fn placement_with_runs(last: bool) {
    let mut rank = [b'8'; 16]; let mut len = 0usize;
    let mut codes = [0u8; 8];
    let mut run = 0u8; let mut f = 0;
    while f < 8 {
        let c = sym::u8(); sym::assume(c < 13);
        codes[f] = c;
        if c == 0 {
            // optionally close the current run before this empty square ("11" instead of "2")
            if run > 0 && sym::bool() { rank[len] = b'0' + run; len += 1; run = 0; }
            run += 1;
        } else {
            if run > 0 { rank[len] = b'0' + run; len += 1; run = 0; }
            rank[len] = LETTERS[c as usize]; len += 1;
        }
        f += 1;
    }
    if run > 0 { rank[len] = b'0' + run; len += 1; }
    let mut s = [0u8; 32]; let mut n = 0;
    if last { let pre = b"8/8/8/8/8/8/8/"; let mut i = 0; while i < 14 { s[n] = pre[i]; n += 1; i += 1; } }
    let mut i = 0; while i < 16 { if i < len { s[n] = rank[i]; n += 1; } i += 1; }
    if !last { let post = b"/8/8/8/8/8/8/8"; let mut i = 0; while i < 14 { s[n] = post[i]; n += 1; i += 1; } }
    let text = str_of(&s, n);
    vnote!("placement", "{}", text);
    let got = crate::fen::vh::placement(text);
    vassert!(got.is_ok(), "C04: a well-formed piece placement is rejected");
    if let Ok(pos) = got {
        let r = if last { 0 } else { 7 };
        let mut ok = true; let mut f = 0;
        while f < 8 {
            let sq = (r * 8 + f) as u8; let c = codes[f];
            let mut pi = 0;
            while pi < 6 {
                let w = pos.bb(Color::White, piece_of(pi as u8)) & bit(sq) != 0;
                let b = pos.bb(Color::Black, piece_of(pi as u8)) & bit(sq) != 0;
                let ww = c >= 1 && c <= 6 && (c - 1) as usize == pi; let wb = c >= 7 && (c - 7) as usize == pi;
                if w != ww || b != wb { ok = false; }
                pi += 1;
            }
            f += 1;
        }
        vassert!(ok, "C04: rank with digit runs parsed onto the wrong squares");
        let others = if last { !0xFFu64 } else { !(0xFFu64 << 56) };
        vassert!((pos.bb_color(Color::White) | pos.bb_color(Color::Black)) & others == 0, "C04: pieces appear on ranks the FEN leaves empty");
    }
    vcover!(len == 1, "rank spelled 8");
    vcover!(len >= 3 && codes[0] == 0 && codes[1] == 0 && codes[2] != 0 && rank[0] == b'1' && rank[1] == b'1', "run split as 11");
}
// piece_of lives in common.rs: 0 pawn .. 5 king, matching LETTERS order P N B R Q K
#[cfg_attr(kani, kani::proof)]
#[cfg_attr(kani, kani::unwind(34))]
pub fn c04_placement_runs_first_rank() { placement_with_runs(false); }
#[cfg_attr(kani, kani::proof)]
#[cfg_attr(kani, kani::unwind(34))]
pub fn c04_placement_runs_last_rank() { placement_with_runs(true); }

/// Side to move.
#[cfg_attr(kani, kani::proof)]
#[cfg_attr(kani, kani::unwind(6))]
pub fn c04_color() {
    let w = sym::bool();
    let cs = if w { "w" } else { "b" };
    let c = crate::fen::vh::color(cs);
    vassert!(matches!((w, c), (true, Ok(Color::White)) | (false, Ok(Color::Black))), "C04: side to move parsed wrongly");
    vcover!(!w, "black to move");
}
/// Castling availability: N distinct letters out of KQkq in any order (N concrete per harness), or "-".
fn castling_case(n: usize) {
    let mut buf = [b'-'; 4]; let mut want = [false; 4];
    let mut i = 0;
    while i < n {
        let k = sym::u8(); sym::assume(k < 4 && !want[k as usize]);
        want[k as usize] = true;
        buf[i] = if k == 0 { b'K' } else if k == 1 { b'Q' } else if k == 2 { b'k' } else { b'q' };
        i += 1;
    }
    let text = str_of(&buf, if n == 0 { 1 } else { n });
    vnote!("castling", "{}", text);
    match crate::fen::vh::castling(text) {
        Ok(cr) => { let r = crate::board::vh::rights(&cr); vassert!(r[0] == want[0] && r[1] == want[1] && r[2] == want[2] && r[3] == want[3], "C04: castling availability parsed wrongly"); }
        Err(_) => vassert!(false, "C04: well-formed castling field rejected"),
    }
    vcover!(n == 0 || buf[0] == b'q', "letters not in KQkq order (or none)");
}
macro_rules! castling_harness { ($name:ident, $n:literal) => {
    #[cfg_attr(kani, kani::proof)]
    #[cfg_attr(kani, kani::unwind(8))]
    pub fn $name() { castling_case($n); }
}; }
castling_harness!(c04_castling_0, 0); castling_harness!(c04_castling_1, 1); castling_harness!(c04_castling_2, 2);
castling_harness!(c04_castling_3, 3); castling_harness!(c04_castling_4, 4);
/// En-passant target: all 16 squares, and "-".
#[cfg_attr(kani, kani::proof)]
#[cfg_attr(kani, kani::unwind(8))]
pub fn c04_ep_square() {
    let file = sym::u8(); sym::assume(file < 8);
    let r6 = sym::bool();
    let eb = [b'a' + file, if r6 { b'6' } else { b'3' }];
    let et = str_of(&eb, 2);
    vnote!("ep", "{}", et);
    match crate::fen::vh::ep(et) {
        Ok(Some(sq)) => vassert!(sq == (if r6 { 40 } else { 16 }) + file, "C04: en-passant square parsed wrongly"),
        Ok(None) => vassert!(false, "C04: en-passant square dropped"),
        Err(_) => vassert!(false, "C04: well-formed en-passant field rejected"),
    }
    vassert!(matches!(crate::fen::vh::ep("-"), Ok(None)), "C04: '-' not read as 'no en-passant square'");
    vcover!(r6 && file == 7, "ep h6");
}

/// Move counters of 1..4 digits: every value a real game can reach (and beyond, up to 9999) is
/// accepted without failure and read correctly.  The longest possible game is below 9000 moves.
#[cfg_attr(kani, kani::proof)]
#[cfg_attr(kani, kani::unwind(6))]
pub fn c04_counters() {
    let len = sym::u8() as usize; sym::assume(len >= 1 && len <= 4);
    let mut buf = [b'0'; 4]; let mut val = 0u64;
    let mut i = 0;
    while i < 4 { if i < len { let d = sym::u8(); sym::assume(d < 10); buf[i] = b'0' + d; val = val * 10 + d as u64; } i += 1; }
    let text = str_of(&buf, len);
    vnote!("counter", "{}", text);
    let half = sym::bool();
    if half {
        // halfmove clock: at most 150 under the 75-move rule
        sym::assume(val <= 150);
        vassert!(crate::fen::vh::halfmove(text) == val, "C04: halfmove clock read wrongly");
    } else {
        sym::assume(val >= 1);
        vassert!(crate::fen::vh::fullmove(text) == val, "C04: fullmove counter read wrongly");
    }
    vcover!(!half && val == 256, "fullmove 256");
    vcover!(!half && val == 8848, "fullmove 8848");
    vcover!(half && val == 150, "halfmove 150");
}

// ------------------------------------------------------------------------------------------ C04-M
fn uci_name(m: &Move) -> ([u8; 5], usize) {
    let mut o = [0u8; 5];
    o[0] = b'a' + m.from % 8; o[1] = b'1' + m.from / 8; o[2] = b'a' + m.to % 8; o[3] = b'1' + m.to / 8;
    if m.move_type == MoveType::Promotion {
        o[4] = match m.piece_type { Piece::Knight => b'n', Piece::Bishop => b'b', Piece::Rook => b'r', _ => b'q' };
        (o, 5)
    } else { (o, 4) }
}
/// Move::to_algebraic is the UCI long-algebraic name of (from, to, promotion piece).
#[cfg_attr(kani, kani::proof)]
#[cfg_attr(kani, kani::unwind(8))]
pub fn c04_move_name() {
    let m = any_move();
    sym::assume(m.move_type != MoveType::Promotion || matches!(m.piece_type, Piece::Knight | Piece::Bishop | Piece::Rook | Piece::Queen));
    let s = m.to_algebraic();
    let (w, n) = uci_name(&m);
    let b = s.as_bytes();
    vassert!(b.len() == n, "C04: move name has the wrong length");
    if b.len() == n {
        vassert!(b[0] == w[0] && b[1] == w[1] && b[2] == w[2] && b[3] == w[3], "C04: move name has the wrong squares");
        if n == 5 { vassert!(b[4] == w[4], "C04: promotion letter wrong"); }
    }
    vcover!(n == 5 && w[4] == b'n', "knight promotion");
    vcover!(m.move_type == MoveType::Castle && n == 4, "castle named as king move");
}
/// Two different legal moves of one position never share a name, so `make_moves` (first generated
/// move whose name equals the token) picks the move the token denotes.
#[cfg_attr(kani, kani::proof)]
#[cfg_attr(kani, kani::unwind(9))]
pub fn c04_names_distinct() {
    let b = any_board();
    let p = from_board(&b);
    sym::assume(valid(&p));
    let m1 = any_move(); let m2 = any_move();
    sym::assume(pseudo_legal(&p, &m1) && pseudo_legal(&p, &m2));
    sym::assume(!(m1.from == m2.from && m1.to == m2.to && m1.piece_type == m2.piece_type && m1.move_type == m2.move_type));
    let (a, na) = uci_name(&m1); let (c, nc) = uci_name(&m2);
    let same = na == nc && a[0] == c[0] && a[1] == c[1] && a[2] == c[2] && a[3] == c[3] && a[4] == c[4];
    vassert!(!same, "C04: two different pseudo-legal moves of one position have the same UCI name");
    vcover!(m1.from == m2.from && m1.to == m2.to, "same squares, different promotion piece");
}

// ------------------------------------------------------------------------------------------ C09-R1
use crate::repetition::RepetitionTable;
/// is_repetition(h) <=> h occurs at least twice in the stack; push/pop are LIFO.  The stack
/// height N is concrete per harness (a symbolic number of Vec pushes does not get through CBMC).
fn repetition_case(n: usize) {
    let mut t = RepetitionTable::new();
    let h = sym::u64();
    let mut count = 0; let mut i = 0;
    while i < n { let x = sym::u64(); t.push(x); if x == h { count += 1; } i += 1; }
    vassert!(t.len() == n, "C09: history length differs from the number of positions recorded");
    vassert!(t.is_repetition(h) == (count >= 2), "C09: is_repetition disagrees with 'occurred at least twice before'");
    // push then pop leaves the answer for every hash unchanged
    let x = sym::u64();
    t.push(x); t.pop();
    vassert!(t.len() == n, "C09: push/pop does not restore the history length");
    vassert!(t.is_repetition(h) == (count >= 2), "C09: push/pop changed the recorded history");
    if n >= 2 { vcover!(count == 2, "exactly two earlier occurrences"); }
    vcover!(count == 0, "no earlier occurrence");
    core::mem::forget(t);
}
macro_rules! rep_harness { ($name:ident, $n:literal) => {
    #[cfg_attr(kani, kani::proof)]
    #[cfg_attr(kani, kani::unwind(8))]
    pub fn $name() { repetition_case($n); }
}; }
rep_harness!(c09_reptable_0, 0); rep_harness!(c09_reptable_1, 1); rep_harness!(c09_reptable_2, 2);
rep_harness!(c09_reptable_3, 3); rep_harness!(c09_reptable_4, 4); rep_harness!(c09_reptable_6, 6);
