//! placeholder
